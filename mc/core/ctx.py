"""Result containers shared by every property module.

A property module exposes
    LEVEL  = 'exploration' | 'fault_enumeration' | 'model_checking'
    run(ctx)              -- enumerate the declared space, feed results into ctx
    replay(case) -> Res   -- re-execute exactly one case without the explorer

Workers return `Res` objects (picklable); `Ctx.merge` folds them in.
"""
import collections
import json

import numpy as np


def jsonable(x):
    """Canonical JSON-friendly form of a case/observation (numpy -> python, floats via repr)."""
    if isinstance(x, dict):
        return {str(k): jsonable(v) for k, v in x.items()}
    if isinstance(x, (list, tuple)):
        return [jsonable(v) for v in x]
    if isinstance(x, np.ndarray):
        if x.dtype == np.longdouble:
            return [jsonable(v) for v in x.tolist()] if x.ndim else repr(x[()])
        return jsonable(x.tolist())
    if isinstance(x, (np.bool_,)):
        return bool(x)
    if isinstance(x, np.integer):
        return int(x)
    if isinstance(x, np.longdouble):
        return repr(x)
    if isinstance(x, np.floating):
        return float(x)
    if isinstance(x, float):
        if x != x:
            return "nan"
        if x in (float("inf"), float("-inf")):
            return "inf" if x > 0 else "-inf"
        return x
    if isinstance(x, (int, str, bool)) or x is None:
        return x
    if isinstance(x, type):
        return x.__name__
    return repr(x)


class Res(object):
    """What one explored case (or one explored state) produced."""
    __slots__ = ("n", "viol", "outcomes", "samples", "extra", "ret")

    def __init__(self):
        self.n = 0              # executions / cells evaluated
        self.viol = []          # violation records
        self.outcomes = []      # outcome-class labels (hashable, small)
        self.samples = []       # a few written-out cases
        self.extra = {}         # free-form counters to be summed (states, transitions, ...)
        self.ret = None         # optional return value for the caller of pmap(collect=True)

    def v(self, key, clause, case, observed=None, expected=None):
        self.viol.append(dict(key=key, clause=clause, case=jsonable(case),
                              observed=jsonable(observed), expected=jsonable(expected)))

    def out(self, label):
        self.outcomes.append(label)

    def add(self, name, k=1):
        self.extra[name] = self.extra.get(name, 0) + k

    def merge(self, other):
        self.n += other.n
        self.viol.extend(other.viol)
        self.outcomes.extend(other.outcomes)
        if len(self.samples) < 8:
            self.samples.extend(other.samples[:8 - len(self.samples)])
        for k, v in other.extra.items():
            self.extra[k] = self.extra.get(k, 0) + v
        return self


class Ctx(object):
    def __init__(self, pid, tier, seed, jobs):
        self.pid = pid
        self.tier = tier
        self.seed = seed
        self.jobs = jobs
        self.level = None
        self.evaluations = 0
        self.violations = []
        self.outcomes = collections.Counter()
        self.samples = []
        self.extra = {}
        self.rule = ""
        self.assumptions = []
        self.caps = []             # descriptions of caps that were hit (=> not exhaustive)
        self.sections = {}         # per-section coverage notes for the evidence file
        self.exhaustive = True

    @property
    def quick(self):
        return self.tier == "quick"

    def merge(self, res, section=None):
        self.evaluations += res.n
        self.violations.extend(res.viol)
        for o in res.outcomes:
            self.outcomes[o if isinstance(o, str) else json.dumps(jsonable(o))] += 1
        for s in res.samples:
            if len(self.samples) < 12:
                self.samples.append(jsonable(s))
        for k, v in res.extra.items():
            self.extra[k] = self.extra.get(k, 0) + v
        if section is not None:
            sec = self.sections.setdefault(section, dict(evaluations=0, violations=0))
            sec["evaluations"] += res.n
            sec["violations"] += len(res.viol)

    def note(self, section, **kw):
        self.sections.setdefault(section, dict(evaluations=0, violations=0)).update(jsonable(kw))

    def cap(self, text):
        self.caps.append(text)
        self.exhaustive = False
