"""Evidence writer: /verif/evidence/<id>.json, validated against EVIDENCE.schema.json (via python3-vt)."""
import json
import os
import subprocess

ROOT = os.path.dirname(os.path.dirname(os.path.dirname(os.path.abspath(__file__))))
SCHEMA = "/root/.vp/EVIDENCE.schema.json"


def write(ctx, wall_s, n_unmatched, n_known, bykey):
    cov = dict(
        evaluations=int(ctx.evaluations),
        distinct_nontrivial=int(len(ctx.outcomes)),
        rule=ctx.rule,
        samples=ctx.samples[:12] or ["(no sample recorded)"],
        exhaustive=bool(ctx.exhaustive),
        caps_hit=ctx.caps,
        sections=ctx.sections,
        outcome_classes=dict(sorted(ctx.outcomes.items(), key=lambda kv: -kv[1])[:40]),
        known_finding_cases=int(n_known),
        unmatched_violation_keys=bykey,
    )
    for k, v in ctx.extra.items():
        cov[k] = int(v) if isinstance(v, (int, bool)) else v
    if ctx.level == "model_checking":
        cov.setdefault("states", 0)
        cov.setdefault("transitions", 0)
        cov.setdefault("traces_validated_against_impl", cov.get("transitions", 0))
    ev = dict(property_id=ctx.pid, tier=ctx.tier, seed=int(ctx.seed), level=ctx.level, coverage=cov,
              assumptions=ctx.assumptions, wall_s=round(float(wall_s), 3), violations=int(n_unmatched))
    evdir = os.path.join(ROOT, "evidence")
    if os.environ.get("VERIF_EVIDENCE_DIR"):
        evdir = os.environ["VERIF_EVIDENCE_DIR"]          # explicit override (trial runs that must not touch the committed evidence)
    elif os.path.realpath(os.environ.get("VERIF_REPO", "/repo")) != "/repo":
        # a run against a scratch copy (mutation driver) must never overwrite the evidence of the real tree
        evdir = os.environ.get("VERIF_EVIDENCE_DIR", "/tmp/desolver-verif-evidence")
    path = os.path.join(evdir, "%s.json" % ctx.pid)
    os.makedirs(os.path.dirname(path), exist_ok=True)
    tmp = path + ".tmp"
    with open(tmp, "w") as fh:
        json.dump(ev, fh, indent=1, default=str)
        fh.write("\n")
    os.replace(tmp, path)
    return path


def validate(path):
    """Returns None if valid (or validator unavailable), else an error string."""
    code = ("import json,sys,jsonschema\n"
            "s=json.load(open(%r)); d=json.load(open(%r))\n"
            "jsonschema.Draft202012Validator(s).validate(d)\n" % (SCHEMA, path))
    try:
        p = subprocess.run(["python3-vt", "-c", code], capture_output=True, text=True, timeout=60)
    except Exception:
        return None
    if p.returncode != 0:
        return (p.stderr or p.stdout)[-800:]
    return None
