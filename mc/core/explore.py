"""E1 — explicit-state breadth-first search over operation histories on the REAL object.

A state *is* the history that reaches it (live objects hold closures and are not copied); it is rebuilt by
replaying the history on a fresh object inside a worker.  `step(cfg, hist)` must
    * build the object for hist[:-1], apply hist[-1] under a horizon,
    * evaluate the invariants / compare with the reference model (violations into Res),
    * return the canonical key of the reached state in Res.ret  (None => do not expand further).
The search is level-synchronous so that all transitions of a level run in the process pool; results are folded
in task order, which makes the set of expanded representatives independent of worker scheduling.
"""
from . import grid
from .ctx import Res

_STEP = None


def _do(task):
    cfg, hist = task
    return _STEP(cfg, hist)


def bfs(ctx, configs, ops_fn, step, depth, section=None, horizon=120, init=None):
    """configs: list of hashable-by-index configuration dicts.  Returns dict(states, transitions, per_depth)."""
    global _STEP
    _STEP = step
    seen = [set() for _ in configs]
    frontier = []
    # depth 0: the initial states
    rets = grid.pmap(_do, [(c, ()) for c in configs], ctx, section=section, horizon=horizon, collect=True)
    for i, k in enumerate(rets):
        if k is not None:
            seen[i].add(k)
            frontier.append((i, ()))
    transitions = 0
    per_depth = [sum(len(s) for s in seen)]
    maxd = 0
    for d in range(1, depth + 1):
        tasks = []
        for (i, hist) in frontier:
            if d > configs[i].get("_depth", depth):
                continue
            for op in ops_fn(configs[i], hist):
                tasks.append((i, hist + (op,)))
        if not tasks:
            break
        rets = grid.pmap(_do, [(configs[i], h) for (i, h) in tasks], ctx, section=section, horizon=horizon, collect=True)
        transitions += len(tasks)
        if not ctx.exhaustive:
            break           # the pool aborted after too many violations
        nxt = []
        for (i, h), k in zip(tasks, rets):
            if k is None:
                continue
            if k not in seen[i]:
                seen[i].add(k)
                nxt.append((i, h))
        per_depth.append(sum(len(s) for s in seen))
        if nxt:
            maxd = d
        frontier = nxt
    states = sum(len(s) for s in seen)
    ctx.extra["states"] = ctx.extra.get("states", 0) + states
    ctx.extra["transitions"] = ctx.extra.get("transitions", 0) + transitions
    ctx.extra["traces_validated_against_impl"] = ctx.extra.get("traces_validated_against_impl", 0) + transitions
    ctx.extra["max_depth"] = max(ctx.extra.get("max_depth", 0), maxd)
    ctx.note(section or "bfs", states_per_depth=per_depth, frontier_left=len(frontier))
    return dict(states=states, transitions=transitions, per_depth=per_depth)
