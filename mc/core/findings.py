"""Known-findings protocol (DESIGN §3.8).

known_findings.json (committed, read-only at run time) is a list of entries
  {id, property, key | key_prefix | key_regex, where: {field: value,...}?, what, status: open|fixed, commit?}

For every violation record:
  * an *open* entry that matches key (+ optional predicate over the case) -> KNOWN-FINDING line (once per entry)
  * otherwise -> VIOLATION line + replay file, exit 1
A fixed entry never suppresses anything.
"""
import hashlib
import json
import os
import re
import sys

ROOT = os.path.dirname(os.path.dirname(os.path.dirname(os.path.abspath(__file__))))
KF_PATH = os.path.join(ROOT, "known_findings.json")


def load():
    if not os.path.exists(KF_PATH):
        return []
    with open(KF_PATH) as fh:
        return json.load(fh)["findings"]


def _match(entry, pid, v):
    if entry.get("property") != pid or entry.get("status") != "open":
        return False
    key = v["key"]
    if "key" in entry and entry["key"] != key:
        return False
    if "key_prefix" in entry and not key.startswith(entry["key_prefix"]):
        return False
    if "key_regex" in entry and not re.fullmatch(entry["key_regex"], key):
        return False
    if not any(k in entry for k in ("key", "key_prefix", "key_regex")):
        return False
    case = v.get("case") if isinstance(v.get("case"), dict) else {}
    for f, want in (entry.get("where") or {}).items():
        got = case.get(f)
        if isinstance(want, list):
            if got not in want:
                return False
        elif got != want:
            return False
    return True


def write_replay(pid, v):
    d = os.path.join(ROOT, "replays", pid)
    os.makedirs(d, exist_ok=True)
    h = hashlib.sha1(json.dumps([v["key"], v["case"]], sort_keys=True, default=str).encode()).hexdigest()[:12]
    path = os.path.join(d, "%s.json" % h)
    with open(path, "w") as fh:
        json.dump(dict(property=pid, **v), fh, indent=1, sort_keys=True, default=str)
    return path


def process(ctx, max_lines=25):
    """Prints KNOWN-FINDING / VIOLATION lines; returns (n_unmatched, n_known, per-key summary)."""
    entries = load()
    known_hit = {}
    unmatched = []
    for v in ctx.violations:
        hit = None
        for e in entries:
            if _match(e, ctx.pid, v):
                hit = e
                break
        if hit is not None:
            known_hit.setdefault(hit["id"], [hit, 0])[1] += 1
        else:
            unmatched.append(v)
    for eid, (e, n) in sorted(known_hit.items()):
        print("KNOWN-FINDING: property=%s %s [%s; %d case(s) matched]" % (ctx.pid, e["what"], eid, n))
    for e in entries:
        if e.get("property") == ctx.pid and e.get("status") == "open" and e["id"] not in known_hit \
                and (not e.get("tiers") or ctx.tier in e["tiers"]):
            print("note: open finding %s did not fire in this run (stale, or outside this tier's space)" % e["id"], file=sys.stderr)
    # group unmatched by key; one replay + one line per key (first case = simplest)
    bykey = {}
    for v in unmatched:
        bykey.setdefault(v["key"], []).append(v)
    shown = 0
    for key, vs in bykey.items():
        path = write_replay(ctx.pid, vs[0])
        if shown < max_lines:
            print("VIOLATION property=%s replay=%s key=%s clause=%s cases=%d" % (ctx.pid, path, key, vs[0]["clause"], len(vs)))
            print("    case=%s" % json.dumps(vs[0]["case"], default=str)[:400])
            print("    observed=%s" % json.dumps(vs[0]["observed"], default=str)[:400])
            print("    expected=%s" % json.dumps(vs[0]["expected"], default=str)[:300])
        shown += 1
    if shown > max_lines:
        print("... %d further violation keys not printed (replay files written)" % (shown - max_lines))
    return len(unmatched), sum(n for _, n in known_hit.values()), {k: len(v) for k, v in bykey.items()}
