"""E3 — exhaustive product enumeration, process pool, per-case horizon.

`pmap(fn, cases, ctx, section)` visits *every* case (order only rotated by the seed),
runs fn(case) -> Res in a forked worker under a wall-clock horizon, and merges the
results into ctx.  An exception that escapes fn, or a horizon hit, is turned into a
violation record (key '<pid>/crash/...' or '<pid>/horizon/...') by the caller-supplied
`on_crash` (default: generic) so that a hang or a crash of the library on an input the
property covers is an ordinary, replayable violation and never a stuck check.
"""
import itertools
import multiprocessing
import os
import signal
import traceback

from .ctx import Res, jsonable


# once this many violation records exist the run stops exploring: the verdict cannot change any more, and a defect that makes every
# cell slow (run-away loops cut only by the step budget) must not turn a check into an hours-long job
ABORT_AFTER = int(os.environ.get("VERIF_ABORT_AFTER", "4000"))


class Horizon(BaseException):      # BaseException: must pass through the library's own "except Exception" handlers
    pass


def _alarm(signum, frame):
    raise Horizon()


def with_horizon(seconds, fn, *a, **kw):
    """Run fn under SIGALRM; raises Horizon if it does not finish."""
    old = signal.signal(signal.SIGALRM, _alarm)
    signal.setitimer(signal.ITIMER_REAL, seconds)
    try:
        return fn(*a, **kw)
    finally:
        signal.setitimer(signal.ITIMER_REAL, 0)
        signal.signal(signal.SIGALRM, old)


_FN = None
_HOR = None
_PID = None


def _call(case):
    try:
        r = with_horizon(_HOR, _FN, case)
        if r is None:
            r = Res()
        return r
    except Horizon:
        r = Res()
        r.n = 1
        r.v("%s/horizon/%s" % (_PID, _short(case)), "horizon", case,
            observed="did not finish within %ss" % _HOR, expected="terminates")
        return r
    except BaseException as e:  # noqa
        r = Res()
        r.n = 1
        r.v("%s/crash/%s/%s" % (_PID, type(e).__name__, _short(case)), "crash", case,
            observed=dict(exc=repr(e)[:300], tb=traceback.format_exc()[-1500:]), expected="no unexpected exception")
        return r


def _short(case):
    if isinstance(case, dict):
        for k in ("method", "name", "fn", "kind"):
            if k in case:
                return str(case[k])
    return "case"


def product(**axes):
    """Full product of named axes as dicts, first axis slowest (simplest-first ordering is the caller's)."""
    names = list(axes)
    for combo in itertools.product(*[axes[n] for n in names]):
        yield dict(zip(names, combo))


def rotate(cases, seed):
    cases = list(cases)
    if not cases:
        return cases
    k = (seed * 7919) % len(cases)
    return cases[k:] + cases[:k]


def _call_idx(ic):
    i, case = ic
    r = _call(case)
    return i, r


def pmap(fn, cases, ctx, section=None, horizon=120, chunksize=None, pid=None, collect=False):
    """Run fn over all cases (complete enumeration); merge into ctx.  Returns number of cases
    (or, with collect=True, the list of Res.ret values aligned with `cases`)."""
    global _FN, _HOR, _PID
    if collect:
        cases = list(cases)
        _FN, _HOR, _PID = fn, horizon, (pid or ctx.pid)
        out = [None] * len(cases)
        jobs = max(1, min(ctx.jobs, len(cases)))
        idx = rotate(list(enumerate(cases)), ctx.seed)
        if jobs == 1 or os.environ.get("VERIF_SERIAL"):
            it = map(_call_idx, idx)
            for i, r in it:
                out[i] = r.ret
                ctx.merge(r, section)
            return out
        if chunksize is None:
            chunksize = max(1, min(64, len(cases) // (jobs * 8)))
        mp = multiprocessing.get_context("fork")
        with mp.Pool(jobs) as pool:
            for i, r in pool.imap_unordered(_call_idx, idx, chunksize=chunksize):
                out[i] = r.ret
                ctx.merge(r, section)
                if len(ctx.violations) > ABORT_AFTER:
                    pool.terminate()
                    ctx.cap("aborted after %d violation records (the property is already refuted; remaining cells not explored)" % len(ctx.violations))
                    break
            else:
                pool.close(); pool.join()       # workers leave through their normal exit path (the coverage diagnostic collects their data there)
        return out
    cases = rotate(cases, ctx.seed)
    _FN, _HOR, _PID = fn, horizon, (pid or ctx.pid)
    jobs = max(1, min(ctx.jobs, len(cases)))
    if jobs == 1 or os.environ.get("VERIF_SERIAL"):
        for c in cases:
            ctx.merge(_call(c), section)
        return len(cases)
    if chunksize is None:
        chunksize = max(1, min(64, len(cases) // (jobs * 8)))
    mp = multiprocessing.get_context("fork")
    with mp.Pool(jobs) as pool:
        for r in pool.imap_unordered(_call, cases, chunksize=chunksize):
            ctx.merge(r, section)
            if len(ctx.violations) > ABORT_AFTER:
                pool.terminate()
                ctx.cap("aborted after %d violation records (the property is already refuted; remaining cells not explored)" % len(ctx.violations))
                break
        else:
            pool.close(); pool.join()
    return len(cases)
