"""C01 — every integrator attains its declared order (complete enumeration of rooted-tree order conditions).

Sections
  tables      row 0 of every RK table against all trees |tau| <= p (leaf weight A.1 and leaf weight c);
              estimator rows consistent; simplifying assumptions B/C/D as a complete certificate for RadauIIA19
  code        universal tree ODE through the real RungeKuttaIntegrator.step / __call__ (explicit, longdouble, h = +1, -1)
  split       bicoloured universal ODE through the real ExplicitSymplecticIntegrator.step (masks default / explicit)
  implicit    universal ODE (<= order 6) through the real implicit __call__ with analytic Jacobian
  richardson  real adaptive_richardson for k = 2..5 on the universal ODE; attained order read off exactly
  ladder      (thorough) global order of whole OdeSystem runs
"""
import numpy as np

from mc.core.ctx import Res
from mc.core import grid
from mc.ref import trees

LEVEL = "exploration"
LD = np.longdouble
U64 = 2.0 ** -53
EPS_LD = float(np.finfo(LD).eps)
K = 64.0


def _imports():
    import desolver as de
    from desolver import integrators as I
    return de, I


def rk_classes():
    de, I = _imports()
    return [M for M in I.explicit_methods() + I.implicit_methods() if getattr(M, "tableau_final", None) is not None]


def split_classes():
    de, I = _imports()
    return [M for M in I.explicit_methods() if getattr(M, "tableau_final", None) is None]


_SEEN = set()


def by_name(name):
    de, I = _imports()
    for M in I.explicit_methods() + I.implicit_methods():
        if M.__name__ == name:
            if name not in _SEEN:
                # the FIRST instances of every class in this process are single- and half-precision ones, built and thrown away: whatever a class keeps
                # from an earlier instance (converted tables, caches) must not reach the instances the conditions are evaluated on
                _SEEN.add(name)
                for lowp in (np.float32, np.float16):
                    try:
                        M((2,), dtype=np.dtype(lowp))
                    except Exception:
                        pass
            return M
    raise KeyError(name)


def attained(ratio, off, qmax):
    """largest q such that every tree of order <= q has ratio <= 1"""
    att = 0
    for n in range(1, qmax + 1):
        lo, hi = off[n]
        if np.all(ratio[lo:hi] <= 1.0):
            att = n
        else:
            break
    return att


def worst(ratio, off, n):
    lo, hi = off[n]
    i = int(np.argmax(ratio[lo:hi])) + lo
    return i, float(ratio[i])


# ---------------------------------------------------------------- tables
def table_case(case):
    r = Res()
    M = by_name(case["method"])
    p = int(M.__order__)
    cap = case["cap"]
    q = min(p, cap)
    T = np.asarray(M.tableau_intermediate, dtype=LD)
    B = np.asarray(M.tableau_final, dtype=LD)
    A, c, b = T[:, 1:], T[:, 0], B[0, 1:]
    size, U, V, gam, off = trees.gen(q)
    N = off[q][1]
    for variant in ("A1", "c"):
        w = trees.weights(A, b, q, c=None if variant == "A1" else c)
        wabs = trees.weights(np.abs(A), np.abs(b), q, c=None if variant == "A1" else np.abs(c))
        tol = K * U64 * size[:N] * wabs
        ratio = np.abs(w - 1 / gam[:N]) / tol
        att = attained(ratio, off, q)
        r.n += N
        r.out(("table", case["method"], variant, att >= q))
        if att < q:
            i, rt = worst(ratio, off, att + 1)
            r.v("C01/table-order/%s/%s/attains%d" % (case["method"], variant, att), "declared order",
                dict(case, variant=variant), observed=dict(attained=att, tree=int(i), tree_order=att + 1, residual=float(abs(w[i] - 1 / gam[i])), ratio_to_rounding_bound=rt),
                expected=dict(declared=p, checked_up_to=q))
    # row sums versus c (needed for non-autonomous problems): c_i = sum_j a_ij
    rs = A.sum(1)
    bad = np.abs(rs - c) > K * U64 * (np.abs(A).sum(1) + np.abs(c))
    r.n += len(c)
    if bad.any():
        r.v("C01/table-rowsum/%s" % case["method"], "c = A.1", case,
            observed=dict(rows=np.nonzero(bad)[0].tolist(), rowsum=rs[bad].astype(float), c=c[bad].astype(float)), expected="c_i == sum_j a_ij")
    # estimator row
    if B.shape[0] == 2:
        bh = B[1, 1:]
        s = bh.sum()
        uses_row_as_functional = "get_error_estimate" in M.__dict__
        target = 0.0 if uses_row_as_functional else 1.0
        r.n += 1
        ok = abs(s - target) <= K * U64 * (np.abs(bh).sum() + 1)
        r.out(("estimator", case["method"], bool(ok)))
        if not ok:
            r.v("C01/estimator/%s" % case["method"], "estimator weights consistent", case,
                observed=dict(sum=float(s)), expected=dict(sum=target))
    # complete certificate by simplifying assumptions when the tree enumeration is capped below p
    if q < p:
        r.merge(simplifying(case["method"], p))
    r.samples.append(dict(section="tables", method=case["method"], declared=p, trees=int(N), checked_to=q))
    return r


def simplifying(name, p):
    """Butcher: B(p), C(eta), D(zeta) with p <= eta+zeta+1 and p <= 2 eta+2  =>  order p.
    Used as the complete certificate for the one table whose tree set (7.4 M) exceeds the quick budget."""
    r = Res()
    M = by_name(name)
    T = np.asarray(M.tableau_intermediate, dtype=LD)
    B = np.asarray(M.tableau_final, dtype=LD)
    A, c, b = T[:, 1:], T[:, 0], B[0, 1:]
    s = len(c)
    def Bk(k):
        val = (b * c ** (k - 1)).sum(); cond = (np.abs(b) * np.abs(c) ** (k - 1)).sum()
        return abs(val - LD(1) / k) <= K * U64 * k * cond + K * U64
    def Ck(k):
        val = A @ c ** (k - 1); cond = np.abs(A) @ np.abs(c) ** (k - 1) + np.abs(c) ** k / k
        return np.all(np.abs(val - c ** k / k) <= K * U64 * k * cond + K * U64 * 1e-3)
    def Dk(k):
        val = (b * c ** (k - 1)) @ A; cond = (np.abs(b) * np.abs(c) ** (k - 1)) @ np.abs(A) + np.abs(b) * (1 + np.abs(c) ** k) / k
        return np.all(np.abs(val - b * (1 - c ** k) / k) <= K * U64 * k * cond + K * U64 * 1e-3)
    pb = 0
    while pb < 2 * s + 2 and Bk(pb + 1):
        pb += 1
    eta = 0
    while eta < s + 1 and Ck(eta + 1):
        eta += 1
    zeta = 0
    while zeta < s + 1 and Dk(zeta + 1):
        zeta += 1
    proven = min(pb, eta + zeta + 1, 2 * eta + 2)
    r.n += pb + eta + zeta
    r.out(("simplifying", name, proven >= p))
    if proven < p:
        r.v("C01/table-order/%s/simplifying/proves%d" % (name, proven), "declared order (simplifying assumptions)",
            dict(method=name), observed=dict(B=pb, C=eta, D=zeta, proven=proven), expected=dict(declared=p))
    return r


# ---------------------------------------------------------------- explicit through the real code
def code_case(case):
    de, I = _imports()
    r = Res()
    M = by_name(case["method"])
    p = int(M.__order__)
    size, U, V, gam, off = trees.gen(p)
    T = np.asarray(M.tableau_intermediate, dtype=LD)
    B = np.asarray(M.tableau_final, dtype=LD)
    tl = case["time_leaves"]
    rhs, N = trees.universal(p, time_leaves=tl)
    w = trees.weights(T[:, 1:], B[0, 1:], p, c=T[:, 0] if tl else None)
    wabs = trees.weights(np.abs(T[:, 1:]), np.abs(B[0, 1:]), p, c=np.abs(T[:, 0]) if tl else None)
    h = LD(case["h"])
    if case["via"] == "step":
        m = M((N,), dtype=np.dtype(LD))
        _, (dT, dY) = m.step(de.DiffRHS(rhs), LD(0), np.zeros(N, dtype=LD), {}, h)
    else:
        m = M((N,), dtype=np.dtype(LD), rtol=LD(1e30), atol=LD(1e30))
        _, (dT, dY) = m(de.DiffRHS(rhs), LD(0), np.zeros(N, dtype=LD), {}, h)
    r.n += N
    if dT != h:
        r.v("C01/code-dT/%s" % case["method"], "step length returned", case, observed=repr(dT), expected=repr(h))
        return r
    exact = (h ** size[:N]) / gam[:N]
    hp = np.abs(h) ** size[:N]                     # the component of a tree of order q is homogeneous of degree q in h
    ratio = np.abs(dY - exact) / (K * U64 * size[:N] * wabs * hp)
    att = attained(ratio, off, p)
    r.out(("code", case["method"], float(h), tl, case["via"], att >= p))
    if att < p:
        i, rt = worst(ratio, off, att + 1)
        r.v("C01/code-order/%s/attains%d" % (case["method"], att), "declared order through the real step", case,
            observed=dict(attained=att, tree=int(i), residual=float(abs(dY[i] - exact[i])), ratio_to_rounding_bound=rt), expected=dict(declared=p))
    agree = np.abs(dY - w * h ** size[:N]) / (K * EPS_LD * size[:N] * wabs * T.shape[0] * hp)
    if np.any(agree > 1):
        i = int(np.argmax(agree))
        r.v("C01/code-vs-table/%s" % case["method"], "real step == B-series of its own table", case,
            observed=dict(tree=i, order=int(size[i]), code=repr(dY[i]), table=repr(w[i] * h ** size[i]), ratio=float(agree[i])), expected="agree to longdouble rounding")
    r.samples.append(dict(section="code", case=case, components=int(N), max_order_ratio=float(ratio.max()), max_code_vs_table_ratio=float(agree.max())))
    # the SAME integrator object, second step from an unrelated exact point (t1, y(t1)) -- not the end of its previous step.
    # The universal ODE is polynomial: a method of order p reproduces y_tau(t1 + h2) exactly for every |tau| <= p from exact data at any t1.
    if case["via"] == "call" and not tl:
        t1 = LD(0.5) * h; h2 = LD(-0.75) * h
        y1 = (t1 ** size[:N]) / gam[:N]
        _, (dT2, dY2) = m(de.DiffRHS(rhs), t1, np.asarray(y1, dtype=LD), {}, h2)
        want = ((t1 + h2) ** size[:N]) / gam[:N] - y1
        tol2 = K * U64 * size[:N] * wabs * (LD(2.25) ** size[:N]) * hp
        ratio2 = np.abs(np.asarray(dY2, dtype=LD) - want) / tol2
        att2 = attained(ratio2, off, p)
        r.n += N
        if dT2 != h2 or att2 < p:
            i, rt = worst(ratio2, off, min(att2 + 1, p))
            r.v("C01/code-order-reused/%s/attains%d" % (case["method"], att2), "declared order for a step from exact data with a reused integrator object", case,
                observed=dict(attained=att2, dT=repr(dT2), tree=int(i), ratio_to_rounding_bound=rt), expected=dict(declared=p))
    return r


# ---------------------------------------------------------------- splitting methods
def split_case(case):
    de, I = _imports()
    r = Res()
    M = by_name(case["method"])
    p = int(M.__order__)
    size, U, V, gam, off = trees.gen(p)
    rhs, N = trees.universal_bi(p)
    h = LD(case["h"])
    kw = {}
    if case["mask"] == "explicit":
        mask = np.zeros(2 * N, dtype=bool); mask[N:] = True
        kw["staggered_mask"] = mask
        f = rhs
    elif case["mask"] == "swapped":
        # kick variables listed first: state = [p-rooted, q-rooted]; mask marks the first half
        mask = np.zeros(2 * N, dtype=bool); mask[:N] = True
        kw["staggered_mask"] = mask
        def f(t, y, **k):
            out = rhs(t, np.concatenate([y[N:], y[:N]]))
            return np.concatenate([out[N:], out[:N]])
    else:
        f = rhs
    m = M((2 * N,), dtype=np.dtype(LD), **kw)
    out = m.step(de.DiffRHS(f), LD(0), np.zeros(2 * N, dtype=LD), {}, h)
    dT, dY = out[1]
    dY = np.array(dY, dtype=LD)
    r.n += 2 * N
    exact = np.concatenate([(h ** size[:N]) / gam[:N]] * 2)
    sz = np.concatenate([size[:N]] * 2)
    # rounding bound: coefficients are float64 literals; each tree weight is a polynomial of degree |tau| in them
    cabs = np.abs(np.asarray(M.tableau_intermediate, dtype=LD)[:, 1:]).sum()
    tol = K * U64 * sz * np.maximum(1.0, float(cabs)) ** sz
    ratio = np.abs(dY - exact) / tol
    att = 0
    for n in range(1, p + 1):
        if np.all(ratio[sz == n] <= 1):
            att = n
        else:
            break
    r.out(("split", case["method"], case["mask"], float(h), att))
    if att < p:
        sel = np.nonzero(sz == att + 1)[0]
        i = int(sel[np.argmax(ratio[sel])])
        r.v("C01/split-order/%s/attains%d" % (case["method"], att), "declared order on separable systems (bicoloured trees)", case,
            observed=dict(attained=att, residual=float(abs(dY[i] - exact[i])), component=i), expected=dict(declared=p))
    r.samples.append(dict(section="split", case=case, components=int(2 * N), attained=att))
    return r


# ---------------------------------------------------------------- implicit through the real code
def shaped(rhs, jac, N, rows):
    """the same ODE with its N unknowns laid out as a (rows, ceil(N/rows)) matrix (zero padding; 'all states' includes states with several axes)"""
    cols = -(-N // rows)
    shape = (rows, cols)

    def f(t, y, **kw):
        v = np.reshape(y, (-1,))
        out = np.zeros(rows * cols, dtype=v.dtype)
        out[:N] = rhs(t, v[:N], **kw)
        return out.reshape(shape)

    def J(t, y, **kw):
        v = np.reshape(y, (-1,))
        full = np.zeros((rows * cols, rows * cols), dtype=v.dtype)
        full[:N, :N] = jac(t, v[:N], **kw)
        return full.reshape(shape + shape)
    return f, J, shape


def implicit_case(case):
    de, I = _imports()
    r = Res()
    M = by_name(case["method"])
    p = int(M.__order__)
    q = min(p, 6)
    size, U, V, gam, off = trees.gen(q)
    rhs, N = trees.universal(q)
    jac = trees.universal_jac(q)
    sshape = (N,)
    if case.get("rows"):
        rhs, jac, sshape = shaped(rhs, jac, N, case["rows"])
    rr = de.DiffRHS(rhs)
    rr.hook_jacobian_call(jac)
    tolv = 1e-14
    m = M(sshape, dtype=np.dtype(np.float64), rtol=tolv, atol=tolv)
    h = np.float64(case["h"])
    try:
        _, (dT, dY) = m(rr, np.float64(0), np.zeros(sshape), {}, h)
    except de.exception_types.FailedToMeetTolerances:
        r.n += 1
        r.out(("implicit", case["method"], "no-accept"))
        r.add("implicit_not_accepted")
        return r
    if np.shape(dY) != sshape:
        r.v("C01/implicit-code-shape/%s" % case["method"], "the increment has the shape of the state", case, observed=list(np.shape(dY)), expected=list(sshape))
        return r
    dY = np.reshape(dY, (-1,))[:N]
    r.n += N
    dT = float(dT)
    exact = (dT ** size[:N]) / np.asarray(gam[:N], dtype=np.float64)
    # no truncation error on the universal ODE: the only error is the Newton residual (<= tol/2 per stage slope)
    T = np.asarray(M.tableau_intermediate, dtype=np.float64)
    amp = 1e3 * (1 + np.abs(T[:, 1:]).sum()) * len(T)
    tol = amp * (tolv + 16 * np.finfo(np.float64).eps) * np.maximum(abs(dT), abs(dT) ** size[:N])
    ratio = np.abs(dY - exact) / tol
    att = attained(ratio, off, q)
    r.out(("implicit", case["method"], float(h), att >= q))
    if att < q:
        i, rt = worst(ratio, off, att + 1)
        r.v("C01/implicit-code-order/%s/attains%d" % (case["method"], att), "declared order through the real implicit step", case,
            observed=dict(attained=att, dT=dT, tree=int(i), residual=float(abs(dY[i] - exact[i])), ratio=rt), expected=dict(declared=p, checked_up_to=q))
    r.samples.append(dict(section="implicit", case=case, dT=dT, max_ratio=float(ratio.max()), attained=att))
    return r


# ---------------------------------------------------------------- Richardson wrappers
def richardson_attained(base, k, qcap, h=1.0):
    """returns (attained order, q checked, dT) of the real adaptive_richardson with k levels around `base`."""
    de, I = _imports()
    p = int(base.__order__)
    q = min(p + k + 1, qcap)
    R = I.generate_richardson_integrator(base, k)
    is_split = getattr(base, "tableau_final", None) is None
    probe = base((2,), dtype=np.dtype(np.float64))
    implicit = bool(probe.is_implicit)
    size, U, V, gam, off = trees.gen(q)
    if is_split:
        rhs, N = trees.universal_bi(q); dim = 2 * N
    else:
        rhs, N = trees.universal(q); dim = N
    rr = de.DiffRHS(rhs)
    if implicit:
        dt = np.float64
        rr.hook_jacobian_call(trees.universal_jac(q))
        m = R((dim,), dtype=np.dtype(dt), rtol=dt(1e-12), atol=dt(1e-12))       # (not tighter: the stage solve must be able to reach a fraction of it in float64)
        floor = 1e-7
        h = 0.5
    else:
        dt = LD
        m = R((dim,), dtype=np.dtype(dt), rtol=dt(1e-25), atol=dt(1e-25))
        floor = 1e-11

    def no_rejection(integ):
        # public extension point (IntegratorTemplate.adaptation_fn): keep the sub-steps of an embedded base at the
        # requested size, so that every level of the extrapolation table covers the same interval
        return integ.solver_dict['timestep'], False
    for bi in m.basis_integrators:
        if bi.solver_dict is not None:      # splitting bases have no controller at all
            bi.adaptation_fn = no_rejection
    ts, (dT, dY), diff = m.adaptive_richardson(rr, dt(0), np.zeros(dim, dtype=dt), {}, dt(h))
    dT = dt(dT)
    g = np.asarray(gam[:N], dtype=dt); sz = size[:N]
    # conditioning of each order condition w.r.t. the float64 rounding of the base method's coefficients
    if is_split:
        cabs = float(np.abs(np.asarray(base.tableau_intermediate, dtype=LD)[:, 1:]).sum(0).max())
        cond = np.asarray(gam[:N], dtype=np.float64) * max(1.0, cabs) ** sz
        g = np.concatenate([g, g]); sz = np.concatenate([sz, sz]); cond = np.concatenate([cond, cond])
    else:
        T = np.asarray(base.tableau_intermediate, dtype=LD); B = np.asarray(base.tableau_final, dtype=LD)
        cond = np.asarray(trees.weights(np.abs(T[:, 1:]), np.abs(B[0, 1:]), q) * gam[:N], dtype=np.float64)
    thr = floor + K * U64 * sz * cond
    err = np.abs(np.asarray(dY, dtype=dt) * g / dT ** sz - 1)
    att = 0
    for n in range(1, q + 1):
        if np.all(err[sz == n] < thr[sz == n]):
            att = n
        else:
            break
    levels = int(m.solver_dict.get("num_richardson_iterations", -1)) + 1
    return att, q, float(dT), levels, float((err / thr)[sz <= att].max()) if att else 0.0


def richardson_case(case):
    r = Res()
    base = by_name(case["base"])
    p = int(base.__order__)
    k = case["k"]
    att, q, dT, levels, emax = richardson_attained(base, k, case["qcap"])
    r.n += 1
    need = p if k == 2 else p + 1
    decidable = min(need, q)
    r.out(("richardson", case["base"], k, att - p if att < q else "cap"))
    if levels != k:
        r.v("C01/richardson-levels/%s/k%d" % (case["base"], k), "all requested extrapolation levels used at tight tolerance", case,
            observed=dict(levels=levels), expected=dict(levels=k))
    if att < decidable:
        r.v("C01/richardson/%s/k%d/attains%d" % (case["base"], k, att), "Richardson order", case,
            observed=dict(attained=att, base_order=p, dT=dT, checked_up_to=q), expected=">= %d (%s)" % (need, "not lower than base" if k == 2 else "strictly higher than base"))
    if q < need:
        r.add("richardson_cells_decided_only_up_to_cap")
    r.samples.append(dict(section="richardson", base=case["base"], k=k, base_order=p, attained=att, checked_to=q, dT=dT))
    return r


# ---------------------------------------------------------------- global-order ladder on the real driver (thorough)
def ladder_case(case):
    de, I = _imports()
    r = Res()
    M = by_name(case["method"])
    p = int(M.__order__)
    y0 = np.array([1.0, 0.3], dtype=LD)

    def f(t, y, **kw):
        return np.array([y[1], -np.sin(y[0])], dtype=y.dtype)
    # reference: RK1412 with 256 steps
    def run(method, n, span):
        a = de.OdeSystem(f, y0=y0, t=span, dt=LD(abs(span[1] - span[0])) / n, rtol=LD(1e30), atol=LD(1e30))
        a.method = method
        a.integrate()
        return a
    span = (LD(0), LD(1)) if case["dir"] > 0 else (LD(1), LD(0))
    # reference: 64 fixed steps of the 14th-order method, stepped by hand (inside OdeSystem an embedded pair would adapt its step)
    refm = I.RK1412Solver((2,), dtype=np.dtype(LD))
    tr, yr, hr = span[0], y0.copy(), (span[1] - span[0]) / 64
    for _ in range(64):
        _, (dt_, dy_) = refm.step(de.DiffRHS(f), tr, yr, {}, hr)
        tr = tr + dt_; yr = yr + dy_
    ref = yr
    errs = []
    ns = [4, 8, 16, 32, 64]
    for n in ns:
        a = run(M, n, span)
        if len(a.t) != n + 1:
            r.out(("ladder", case["method"], "grid-not-uniform"))
            return r   # step-size defects are C04's; the ladder only speaks when the grid is the requested one
        errs.append(float(np.abs(a.y[-1] - ref).max()))
    r.n += len(ns)
    errs = np.array(errs)
    good = errs > 1e4 * EPS_LD
    orders = [np.log2(errs[i] / errs[i + 1]) for i in range(len(ns) - 1) if good[i] and good[i + 1]]
    r.out(("ladder", case["method"], case["dir"], len(orders)))
    if orders and min(orders[-2:]) < p - 1:
        r.v("C01/ladder/%s" % case["method"], "observed global order of OdeSystem runs", case,
            observed=dict(errors=errs.tolist(), orders=[float(o) for o in orders]), expected=">= declared-1 = %d" % (p - 1))
    r.samples.append(dict(section="ladder", method=case["method"], orders=[round(float(o), 2) for o in orders]))
    return r


SECTIONS = dict(tables=table_case, code=code_case, split=split_case, implicit=implicit_case, richardson=richardson_case, ladder=ladder_case)


def cases(ctx):
    de, I = _imports()
    out = {}
    cap = 14 if ctx.quick else 17
    out["tables"] = [dict(method=M.__name__, cap=cap) for M in rk_classes()]
    expl = [M for M in rk_classes() if M in I.explicit_methods()]
    out["code"] = [dict(method=M.__name__, h=h, time_leaves=tl, via=via)
                   for M in expl for h in (1.0, -1.0) for tl in (False, True) for via in ("step", "call")
                   if not (ctx.quick and int(M.__order__) >= 14 and (via == "call" or (tl and h < 0)))]
    # small steps of either sign ("all sufficiently small step sizes"): dyadic, so that the powers of h are exact; anything the step code decides by
    # comparing h-scaled coefficients with an absolute threshold shows up here and not at |h| = 1
    out["code"] += [dict(method=M.__name__, h=h, time_leaves=tl, via=via)
                    for M in expl for h in (2.0 ** -7, -2.0 ** -7) + (() if ctx.quick else (2.0 ** -12, -2.0 ** -12)) for tl in (False, True) for via in ("step", "call")
                    if not (ctx.quick and ((int(M.__order__) >= 14 and (via == "call" or tl or h < 0)) or (int(M.__order__) < 14 and via == "step" and tl)))]
    out["split"] = [dict(method=M.__name__, h=h, mask=mk) for M in split_classes() for h in (1.0, -1.0) for mk in ("default", "explicit", "swapped")]
    impl = [M for M in rk_classes() if M in I.implicit_methods()]
    out["implicit"] = [dict(method=M.__name__, h=h) for M in impl for h in ((0.5, -0.5) if ctx.quick else (0.5, -0.5, 0.25, -0.25))]
    # the same through a matrix-shaped state (two non-singleton axes, not square)
    out["implicit"] += [dict(method=M.__name__, h=h, rows=2) for M in impl for h in ((0.5,) if ctx.quick else (0.5, -0.5))]
    qcap = 11 if ctx.quick else 15
    bases = [M for M in I.explicit_methods()] + [M for M in impl if int(M.__order__) <= 6]
    out["richardson"] = [dict(base=M.__name__, k=k, qcap=(qcap if M in I.explicit_methods() else 8)) for M in bases for k in (2, 3, 4, 5)]
    if not ctx.quick:
        out["ladder"] = [dict(method=M.__name__, dir=d) for M in I.explicit_methods() + impl if int(M.__order__) <= 8 for d in (1, -1)]
    return out


def run(ctx):
    ctx.rule = ("complete enumeration of rooted-tree order conditions (Butcher): per method all trees with |tau| <= declared order, "
                "on the coefficient tables and as components of a universal tree ODE pushed through the real step code; "
                "a case is one (method, variant) cell; distinct = distinct (section, method, variant, verdict) classes")
    ctx.assumptions += [
        "Butcher's theorem: order p for all smooth f <=> Phi(tau) = 1/gamma(tau) for all rooted trees |tau| <= p (bicoloured trees for partitioned/splitting methods)",
        "tolerance per condition = 64 * 2^-53 * |tau| * Phi_abs(tau) (first-order bound for float64-rounded coefficients); not tuned",
        "RadauIIA19: tree enumeration capped (quick 14, thorough 17); the full order-19 claim is decided by the simplifying assumptions B(19), C(10), D(9)",
        "Richardson cells whose cap lies below base+1 decide only '>= cap'",
    ]
    allc = cases(ctx)
    for sec, cs in allc.items():
        if ctx.only and sec not in ctx.only:
            continue
        grid.pmap(SECTIONS[sec], cs, ctx, section=sec, horizon=1500, chunksize=1)
    ctx.extra["order_conditions_checked"] = int(ctx.evaluations)


def replay(case):
    for sec in ("k" in case and "richardson", "mask" in case and "split", "via" in case and "code", "dir" in case and "ladder", "cap" in case and "tables", "implicit"):
        if sec:
            return SECTIONS[sec](case)
