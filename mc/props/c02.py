"""C02 — one step equals the Runge-Kutta update defined by the method's coefficients.

Oracle (the property statement itself, evaluated in longdouble from the library's own stage slopes):
    r_i = k_i - f(t + c_i dT, y + dT sum_j a_ij k_j)      explicit: |r_i| <= rounding bound; implicit: ||r||_2 < Newton tolerance
    dState = dT sum_i b_i k_i                              to rounding
Splitting methods: the step equals the drift/kick composition read from the coefficient list and the mask.
E2: the nonlinear solver's answers are scripted (truthful / forced failure / lying success with a bad point).
"""
import itertools

import numpy as np

from mc.core.ctx import Res
from mc.core import grid
from mc.ref import problems

LEVEL = "exploration"
LD = np.longdouble
K = 64.0
DTYPES = {"float32": np.float32, "float64": np.float64, "longdouble": np.longdouble}


def _imports():
    import desolver as de
    from desolver import integrators as I
    return de, I


def by_name(name):
    de, I = _imports()
    for M in I.explicit_methods() + I.implicit_methods():
        if M.__name__ == name:
            return M
    raise KeyError(name)


def val(x, dtype):
    """a case value: a number, or [num, den] = a quotient formed in the working precision (not representable in a lower one)"""
    return dtype(x[0]) / dtype(x[1]) if isinstance(x, (list, tuple)) else dtype(x)


def eps_of(dt):
    return float(np.finfo(dt).eps)


def check_rk_state(r, m, M, f, L, t, y, h_req, dT, dY, dtype, case, tol_newton=None, label=""):
    """residual oracle on the integrator's stage_values / dState for the step it just returned."""
    e = eps_of(dtype)
    T = np.asarray(M.tableau_intermediate, dtype=LD)
    B = np.asarray(M.tableau_final, dtype=LD)
    A, c, b = T[:, 1:], T[:, 0], B[0, 1:]
    s = len(c)
    kst = np.asarray(m.stage_values, dtype=LD)            # (*dim, s)
    yl = np.asarray(y, dtype=LD); tl = LD(t); dTl = LD(dT)
    scale = float(np.max(np.abs(yl))) + 1.0
    res2 = 0.0
    worst = 0.0
    for i in range(s):
        arg = yl + dTl * np.sum(kst * A[i], axis=-1)
        fi = np.asarray(f(tl + c[i] * dTl, arg), dtype=LD)
        ri = kst[..., i] - fi
        absarg = float(np.max(np.abs(yl))) + abs(float(dTl)) * float(np.max(np.sum(np.abs(kst) * np.abs(A[i]), axis=-1)))
        bound = K * e * ((1.0 + L) * (absarg + abs(float(tl)) + abs(float(dTl))) + float(np.max(np.abs(fi))) + 1.0)
        rmax = float(np.max(np.abs(ri)))
        res2 += float(np.sum(ri * ri))
        if tol_newton is None:
            r.n += 1
            if rmax > bound:
                r.v("C02/stage-residual/%s" % case["method"], "k_i = f(t + c_i h, y + h sum a_ij k_j) to rounding" + label,
                    dict(case, stage=i), observed=dict(residual=rmax, bound=bound, dT=float(dTl)), expected="<= rounding bound")
                break
        worst = max(worst, rmax / bound)
    if tol_newton is not None:
        r.n += 1
        rn = res2 ** 0.5
        # "to the nonlinear-solver tolerance": the level at which the library's solvers themselves call a point a solution,
        # 10 tol (n + |x|_2) over the n unknown stage slopes x (optimizer.py; C15 holds the solvers to it)
        bound = 10.0 * tol_newton * (kst.size + float(np.sqrt(np.sum(kst * kst)))) + K * e * (1.0 + L) * scale * s
        if not rn <= bound:
            r.v("C02/implicit-residual/%s" % case["method"], "accepted implicit step has stage equations solved to tolerance" + label,
                case, observed=dict(residual_norm=rn, tol=tol_newton, dT=float(dTl)), expected="||k - f(...)||_2 < tol")
    # the increment
    want = dTl * np.sum(kst * b, axis=-1)
    bnd = K * e * (abs(float(dTl)) * float(np.max(np.sum(np.abs(kst) * np.abs(b), axis=-1))) + 1e-300)
    r.n += 1
    got = np.asarray(dY, dtype=LD)
    if got.shape != want.shape or float(np.max(np.abs(got - want))) > bnd:
        r.v("C02/increment/%s" % case["method"], "dState = h sum b_i k_i" + label, case,
            observed=dict(err=float(np.max(np.abs(got - want))) if got.shape == want.shape else "shape %s" % (got.shape,), bound=bnd), expected="to rounding")
    return worst


def rk_case(case):
    de, I = _imports()
    r = Res()
    M = by_name(case["method"])
    dtype = DTYPES[case["dtype"]]
    shape = tuple(case["shape"])
    f, L = problems.make_rhs(case["rhs"], shape, case["seed"])
    y = problems.initial_state(shape, dtype, case["seed"])
    if case.get("yscale") is not None:
        y = (y * dtype(case["yscale"])).astype(dtype)
    t = val(case["t"], dtype); h = val(case["h"], dtype)
    probe = M(shape, dtype=np.dtype(dtype))
    implicit = bool(probe.is_implicit)
    rhs = de.DiffRHS(f)
    if implicit:
        tolv = {"float32": 1e-4, "float64": 1e-9, "longdouble": 1e-12}[case["dtype"]]
        rt, at = case.get("tols") or (tolv, tolv)
        m = M(shape, dtype=np.dtype(dtype), rtol=dtype(rt), atol=dtype(at))
    else:
        m = M(shape, dtype=np.dtype(dtype), rtol=dtype(1e30) if dtype != np.float32 else dtype(1e30), atol=dtype(1e30))
    tcur, ycur = t, y.copy()
    sc = None
    if implicit and case.get("tols"):
        # the solver seam, answers untouched: which tolerance is each attempt of the step asked to meet?
        import desolver.utilities.optimizer as opt
        sc = Scripted("", "T"); sc.real = opt.nonlinear_roots; opt.nonlinear_roots = sc
    try:
        return _rk_calls(r, de, m, M, rhs, f, L, t, y, h, tcur, ycur, dtype, shape, implicit, case, sc)
    finally:
        if sc is not None:
            opt.nonlinear_roots = sc.real


def _asked(r, sc, tn, dtype, case, call):
    """every attempt of the call just made asked the solver for the tolerance of the state the step starts from (or a tighter one)"""
    if sc is None:
        return
    log, sc.log = sc.log, []
    r.n += 1
    worst = max([t_ for (_, _, _, t_) in log] or [0.0])
    if worst > tn * (1 + 16 * eps_of(dtype)):
        r.v("C02/asked-tolerance/%s" % case["method"], "each attempt solves the stage equations to the tolerance of the state the step starts from",
            dict(case, call=call), observed=dict(asked=[t_ for (_, _, _, t_) in log], tolerance_of_start_state=tn), expected="asked <= 0.5 (atol + rtol max|y|)")


def _rk_calls(r, de, m, M, rhs, f, L, t, y, h, tcur, ycur, dtype, shape, implicit, case, sc):
    for call in range(2):          # two chained calls: the second starts from cached end slopes (FSAL path)
        try:
            new_dt, (dT, dY) = m(rhs, tcur, ycur, {}, h)
        except Exception as e:
            # FailedToMeetTolerances, or an error escaping the nonlinear solver (LinAlgError / 'Encountered nan'): no step was handed back
            r.n += 1
            r.out(("rk", case["method"], case["dtype"], "no-accept", type(e).__name__))
            r.add("not_accepted")
            return r
        tn = None
        if implicit:
            tn = float(np.max(np.abs(m.atol + np.max(np.abs(m.rtol * ycur))))) * 0.5
            if not m.solver_dict.get("newton_iteration_success"):
                r.v("C02/accepted-without-success/%s" % case["method"], "returned step follows a successful solve", case,
                    observed="newton_iteration_success is false on return", expected=True)
        if not implicit and dT != h:
            r.v("C02/explicit-dT/%s" % case["method"], "explicit step (huge tolerance) keeps the requested h", case, observed=float(dT), expected=float(h))
        if (dT > 0) != (h > 0) or abs(dT) > abs(h) * (1 + 4 * eps_of(dtype)):
            r.v("C02/dT-sign-size/%s" % case["method"], "returned step has the sign of the request and is not longer", dict(case, call=call),
                observed=float(dT), expected=float(h))
        check_rk_state(r, m, M, f, L, tcur, ycur, h, dT, dY, dtype, dict(case, call=call), tol_newton=tn, label=" (call %d)" % call)
        _asked(r, sc, tn, dtype, case, call)
        if call == 0:
            tcur = tcur + dT; ycur = ycur + dY            # call 1 continues where call 0 ended (cached end slope is legitimately reused)
        else:
            # call "rev": the SAME object steps back with -h of exactly the same magnitude from where call 1 ended (anything cached per step size
            # must not survive the change of sign)
            trev = tcur + dT; yrev = (ycur + dY).astype(dtype); hrev = -val(case["h"], dtype)
            try:
                new_dt, (dTr, dYr) = m(rhs, trev, yrev, {}, hrev)
            except Exception:
                r.add("not_accepted")
                break
            tn = float(np.max(np.abs(m.atol + np.max(np.abs(m.rtol * yrev))))) * 0.5 if implicit else None
            check_rk_state(r, m, M, f, L, trev, yrev, hrev, dTr, dYr, dtype, dict(case, call="rev"), tol_newton=tn, label=" (call rev, -h after +h)")
            _asked(r, sc, tn, dtype, case, "rev")
            # call 2: the SAME integrator object is asked for a step from an unrelated (t, y) with another h:
            # the property holds for any time, state and step, not only for the continuation of the previous call
            tcur = val(case["t"], dtype) + dtype(0.75); ycur = (y * dtype(0.5) + dtype(0.25)).astype(dtype); h = dtype(-0.5) * val(case["h"], dtype)
            try:
                new_dt, (dT, dY) = m(rhs, tcur, ycur, {}, h)
            except Exception:
                r.add("not_accepted")
                break
            tn = float(np.max(np.abs(m.atol + np.max(np.abs(m.rtol * ycur))))) * 0.5 if implicit else None
            check_rk_state(r, m, M, f, L, tcur, ycur, h, dT, dY, dtype, dict(case, call=2), tol_newton=tn, label=" (call 2, unrelated start)")
            _asked(r, sc, tn, dtype, case, 2)
            if implicit:
                # call 3: the tolerances of the SAME object are tightened through its public attributes between two calls; the next step - its first
                # attempt included - is solved to the tolerances in force now
                m.rtol = m.rtol * dtype(1e-2); m.atol = m.atol * dtype(1e-2)
                tcur = val(case["t"], dtype) - dtype(0.25); ycur = (y * dtype(0.75) - dtype(0.125)).astype(dtype); h = dtype(0.5) * val(case["h"], dtype)
                try:
                    new_dt, (dT, dY) = m(rhs, tcur, ycur, {}, h)
                except Exception:
                    r.add("not_accepted")
                    break
                tn = float(np.max(np.abs(m.atol + np.max(np.abs(m.rtol * ycur))))) * 0.5
                check_rk_state(r, m, M, f, L, tcur, ycur, h, dT, dY, dtype, dict(case, call=3), tol_newton=tn, label=" (call 3, tolerances tightened on the object)")
                _asked(r, sc, tn, dtype, case, 3)
    # a second object: the right-hand side reads a constant, and the constant CHANGES between a step and its exact continuation (same end point, bitwise):
    # nothing remembered from the first call - an end slope, a first stage - is valid for the second one
    if not implicit and case["rhs"] in ("tanh_net", "linear_t", "logistic") and not isinstance(case["t"], (list, tuple)):
        def fg(t_, y_, gain=1.0, **kw):
            return f(t_, y_) * y_.dtype.type(gain)
        m2 = M(shape, dtype=np.dtype(dtype), rtol=dtype(1e30), atol=dtype(1e30))
        rg = de.DiffRHS(fg)
        t_a, y_a = val(case["t"], dtype), y.copy()
        hh = val(case["h"], dtype)
        try:
            _, (dTa, dYa) = m2(rg, t_a, y_a, dict(gain=1.0), hh)
            t_b, y_b = t_a + dTa, (y_a + dYa).astype(dtype)
            _, (dTb, dYb) = m2(rg, t_b, y_b, dict(gain=1.5), hh)
            check_rk_state(r, m2, M, (lambda t_, y_: f(t_, y_) * LD(1.5)), 1.5 * L, t_b, y_b, hh, dTb, dYb, dtype, dict(case, call="constants-changed"), label=" (continuation with another constant)")
        except Exception:
            r.add("not_accepted")
    r.out(("rk", case["method"], case["dtype"], case["rhs"], len(shape), "implicit" if implicit else "explicit"))
    if case.get("sample"):
        r.samples.append(dict(case))
    return r


def split_case(case):
    de, I = _imports()
    r = Res()
    M = by_name(case["method"])
    dtype = DTYPES[case["dtype"]]
    shape = tuple(case["shape"])
    n = shape[0]
    f, L = problems.make_rhs(case["rhs"], shape, case["seed"])
    y = problems.initial_state(shape, dtype, case["seed"])
    t = val(case["t"], dtype); h = val(case["h"], dtype)
    if case["mask"] == "default":
        mk = None
        kick = np.zeros(shape); kick[n // 2:] = 1
    else:
        bits = case["mask"]
        mk = np.array([bool(int(ch)) for ch in bits]).reshape(shape)      # (matrix-shaped states: the mask has the state's shape, row-major)
        kick = mk.astype(float)
        # what the caller hands over: a bool array, or any array / list whose truthy entries mark the kicked variables (flag bits, -1 markers)
        kind = case.get("mask_kind", "bool")
        if kind == "int2":
            mk = mk.astype(np.int64) * 2
        elif kind == "neg":
            mk = -mk.astype(np.int8)
        elif kind == "list":
            mk = mk.astype(int).tolist()
    m = M(shape, dtype=np.dtype(dtype), staggered_mask=mk)
    tcur, ycur = t, y.copy()
    e = eps_of(dtype)
    for call in range(3):          # calls 0,1 contiguous; call 2 from an unrelated point with the same object
        new_dt, (dT, dY) = m(de.DiffRHS(f), tcur, ycur, {}, h)
        T = np.asarray(M.tableau_intermediate, dtype=LD)
        d = np.zeros(shape, dtype=LD); tc = LD(tcur); yl = np.asarray(ycur, dtype=LD); hl = LD(h)
        kl = np.asarray(kick, dtype=LD)
        mag = 0.0
        for row in T:
            F = np.asarray(f(tc, yl + d), dtype=LD)
            tc = tc + hl * row[1]
            d = d + hl * F * (row[1] * (1 - kl) + row[2] * kl)
            mag += abs(float(hl)) * float(np.max(np.abs(F))) * float(max(abs(row[1]), abs(row[2])))
        r.n += 1
        bound = K * e * len(T) * (1 + L * abs(float(hl))) ** len(T) * (mag + float(np.max(np.abs(yl))) + 1.0)
        got = np.asarray(dY, dtype=LD)
        if dT != h or got.shape != d.shape or float(np.max(np.abs(got - d))) > bound:
            r.v("C02/split-composition/%s" % case["method"], "step is the drift/kick composition of the coefficient list", dict(case, call=call),
                observed=dict(dT=float(dT), err=float(np.max(np.abs(got - d))) if got.shape == d.shape else "shape", bound=bound), expected="to rounding")
        if call == 0:
            tcur = tcur + dT; ycur = ycur + dY
        else:
            tcur = val(case["t"], dtype) + dtype(0.75); ycur = (y * dtype(0.5) + dtype(0.25)).astype(dtype)
    r.out(("split", case["method"], case["dtype"], case["mask"], case["rhs"]))
    return r


# ---------------------------------------------------------------- E2: scripted solver answers
class Scripted(object):
    """Replaces desolver.utilities.optimizer.nonlinear_roots; answer i follows script[i] (T truthful, F forced failure,
    L lying success: a perturbed point is returned with success=True and its honest residual norm)."""

    def __init__(self, script, tail):
        self.script = script
        self.tail = tail
        self.calls = 0
        self.log = []

    def __call__(self, f, x0, jac=None, tol=None, **kw):
        import desolver.utilities.optimizer as opt
        ans = self.script[self.calls] if self.calls < len(self.script) else self.tail
        self.calls += 1
        x, info = self.real(f, x0, jac=jac, tol=tol, **kw)
        succ, niter, nfev, njev, prec = info
        if ans == "F":
            info = (False, niter, nfev, njev, prec)
        elif ans == "L":
            x = x + 0.25
            prec = np.linalg.norm(np.asarray(f(x, *kw.get("additional_args", ())), dtype=np.float64))
            info = (True, niter, nfev, njev, prec)
        self.log.append((ans, bool(info[0]), float(info[4]), float(tol)))
        return x, info


def script_case(case):
    de, I = _imports()
    import desolver.utilities.optimizer as opt
    r = Res()
    M = by_name(case["method"])
    dtype = np.float64
    shape = (3,)
    f, L = problems.make_rhs("tanh_net", shape, case["seed"])
    y = problems.initial_state(shape, dtype, case["seed"])
    tolv = 1e-9
    m = M(shape, dtype=np.dtype(dtype), rtol=dtype(tolv), atol=dtype(tolv))
    if case.get("ctrl") == "user":
        # the caller's own step controller through the public adaptation_fn hook (here: keep the step, never ask for a redo).  Whether a stage system was
        # solved is not the controller's business: with any controller an unsolved step must be redone or refused
        m.adaptation_fn = lambda integ: (integ.solver_dict["timestep"], False)
    sc = Scripted(case["script"], case["tail"])
    sc.real = opt.nonlinear_roots
    opt.nonlinear_roots = sc
    h = val(case["h"], dtype)
    exc = None
    try:
        try:
            new_dt, (dT, dY) = m(de.DiffRHS(f), dtype(0.5), y, {}, h)
        except de.exception_types.FailedToMeetTolerances as e:
            exc = e
    finally:
        opt.nonlinear_roots = sc.real
    r.n += 1
    truthful_ok = [a == "T" and s and p < t for (a, s, p, t) in sc.log]
    if exc is None:
        last = sc.log[-1]
        # the accepted attempt is the last solve; it must be a truthful success with prec < tol
        if not truthful_ok[-1]:
            r.v("C02/accepted-bad-solve/%s" % case["method"], "a step whose stage equations were not solved is never accepted", case,
                observed=dict(log=[(a, s, p) for a, s, p, t in sc.log], dT=float(dT)), expected="last solve truthful success with prec < tol")
        tn = float(np.max(np.abs(m.atol + np.max(np.abs(m.rtol * y))))) * 0.5
        check_rk_state(r, m, M, f, L, dtype(0.5), y, h, dT, dY, dtype, case, tol_newton=tn, label=" (scripted)")
        if (dT > 0) != (h > 0):
            r.v("C02/dT-sign-size/%s" % case["method"], "returned step has the sign of the request", case, observed=float(dT), expected=float(h))
        r.out(("script", case["method"], "accepted", len(sc.log), case.get("ctrl", "default")))
    else:
        if any(truthful_ok) and case["tail"] == "T":
            # raising although some attempt was solved: allowed only if the controller rejected it -- not for these fixed-step cells
            pass
        if case["tail"] == "T" and len(case["script"]) < 60:
            r.v("C02/raised-with-truthful-tail/%s" % case["method"], "retries reach a truthful solve within the retry budget", case,
                observed=dict(exc=repr(exc)[:200], solves=len(sc.log)), expected="accepted step")
        r.out(("script", case["method"], "raised", len(sc.log)))
    if case["tail"] != "T" and exc is None:
        r.v("C02/never-solved-accepted/%s" % case["method"], "all solves fail => FailedToMeetTolerances, never a returned step", case,
            observed=dict(dT=float(dT), solves=len(sc.log)), expected="raise")
    return r


def run_case(case):
    return dict(rk=rk_case, split=split_case, script=script_case)[case["section"]](case)


def build_cases(ctx):
    de, I = _imports()
    seed = ctx.seed
    rk = [M for M in I.explicit_methods() + I.implicit_methods() if getattr(M, "tableau_final", None) is not None]
    sp = [M for M in I.explicit_methods() if getattr(M, "tableau_final", None) is None]
    progs = [("const", [1]), ("logistic", [1]), ("linear_t", [3]), ("tanh_net", [3]), ("poly", [3]), ("matrix", [2, 2]), ("tanh_net", [1]), ("linear_t", [2, 2])]
    ts = [-1.5, 0.0, 2.0]
    hs = [0.25, -0.25, 0.0625, -0.0625, 0.015625, -0.015625]
    cases = []
    for M in rk:
        for dname in DTYPES:
            for (pn, shp) in progs:
                if pn in ("linear_t",) and shp == [2, 2]:
                    continue
                for t in ts:
                    for h in hs:
                        full = (dname == "float64") or not ctx.quick
                        if not full and not (t == -1.5 and h in (0.0625, -0.0625) and pn in ("tanh_net", "matrix", "logistic")):
                            continue
                        if ctx.quick and dname == "float64" and M.__name__ in ("RadauIIA19",) and not (h in (0.25, -0.0625) and t != 0.0):
                            continue
                        cases.append(dict(section="rk", method=M.__name__, dtype=dname, rhs=pn, shape=shp, t=t, h=h, seed=seed))
    # matrix-shaped states with masks that vary INSIDE a row (one row per particle, columns (q, p)) and along rows; masks handed over as flag-bit / marker
    # arrays and lists
    for M in sp:
        for dname in DTYPES:
            for pn, shp, masks in [("tanh_net", [2, 2], ["0101", "0011", "1010", "0110"]), ("linear_t", [2, 3], ["010101", "000111", "011010"]), ("tanh_net", [3, 2], ["010101", "001100"])]:
                for mk in masks:
                    for h in (0.0625, -0.0625):
                        if ctx.quick and dname != "float64" and mk not in ("0101", "010101"):
                            continue
                        cases.append(dict(section="split", method=M.__name__, dtype=dname, rhs=pn, shape=shp, mask=mk, t=-1.5, h=h, seed=seed))
            for kind in ("int2", "neg", "list"):
                for shp, mk in (([4], "0101"), ([2, 2], "0101"), ([4], "0011")):
                    cases.append(dict(section="split", method=M.__name__, dtype=dname, rhs="tanh_net", shape=shp, mask=mk, mask_kind=kind, t=0.0, h=0.0625, seed=seed))
    for M in sp:
        for dname in DTYPES:
            for pn, shp, masks in [("tanh_net", [4], ["default", "0011", "0101", "1100", "1010"]), ("poly", [2], ["default", "01", "10"]), ("linear_t", [6], ["default", "010101", "000111"])]:
                for mk in masks:
                    for t in ts:
                        for h in hs:
                            if ctx.quick and dname != "float64" and not (t == -1.5 and abs(h) == 0.0625):
                                continue
                            cases.append(dict(section="split", method=M.__name__, dtype=dname, rhs=pn, shape=shp, mask=mk, t=t, h=h, seed=seed))
    # beside the dyadic values: a start time and steps that are quotients formed in the working precision (1000/3, +-1/10: not representable in a lower
    # precision, so anything that passes the time through a narrower type on its way to the right-hand side shows), time-dependent programs
    for M in rk:
        for dname in DTYPES:
            for (pn, shp) in (("linear_t", [3]), ("tanh_net", [3])):
                for h in ([1, 10], [-1, 10]):
                    if ctx.quick and M.__name__ == "RadauIIA19" and (dname != "float64" or pn != "linear_t"):
                        continue
                    cases.append(dict(section="rk", method=M.__name__, dtype=dname, rhs=pn, shape=shp, t=[1000, 3], h=h, seed=seed))
    for M in sp:
        for dname in DTYPES:
            for pn, shp, masks in [("tanh_net", [4], ["default", "0101"]), ("linear_t", [6], ["default", "010101", "000111"])]:
                for mk in masks:
                    for h in ([1, 10], [-1, 10]):
                        cases.append(dict(section="split", method=M.__name__, dtype=dname, rhs=pn, shape=shp, mask=mk, t=[1000, 3], h=h, seed=seed))
    # stage equations without a solution (y' = exp(+-y), |h| = 1) and scalar / (1,)-shaped states, through the REAL nonlinear solvers in every precision
    # (float64: MINPACK first; float32 / longdouble: the built-in path): whatever is handed back must satisfy the stage equations
    for M in [m_ for m_ in rk if m_ in I.implicit_methods()]:
        for dname in DTYPES:
            for pn in ("expgrow", "expdecay"):
                for shp in ([1], []):
                    for h in (1.0, -1.0, 0.25):
                        if ctx.quick and M.__name__ == "RadauIIA19" and (dname != "float64" or shp == []):
                            continue
                        cases.append(dict(section="rk", method=M.__name__, dtype=dname, rhs=pn, shape=shp, t=0.0, h=h, seed=seed))
    # a state that is tiny beside its slopes (forced programs), relative tolerance far above the absolute one, steps large enough to be refused
    # and redone by the adaptive methods: the solve tolerance belongs to the state the step starts from, on every attempt
    for M in [m_ for m_ in rk if m_ in I.implicit_methods()]:
        for dname in (("float64",) if ctx.quick else ("float64", "longdouble")):
            for (pn, shp) in (("linear_t", [3]), ("tanh_net", [3])):
                for t in (0.25, -1.5):
                    for h in (0.5, -0.5, 2.0, -2.0):
                        if ctx.quick and M.__name__ == "RadauIIA19" and not (t == 0.25 and pn == "linear_t"):
                            continue
                        cases.append(dict(section="rk", method=M.__name__, dtype=dname, rhs=pn, shape=shp, t=t, h=h, seed=seed, yscale=1e-9, tols=[1e-6, 1e-10]))
    impl = [M for M in rk if M in I.implicit_methods()]
    maxlen = 3 if ctx.quick else 4
    scripts = [""]
    for n in range(1, maxlen + 1):
        scripts += ["".join(p) for p in itertools.product("TFL", repeat=n)]
    sm = impl if not ctx.quick else [M for M in impl if M.__name__ in ("BackwardEuler", "ImplicitMidpoint", "GaussLegendre4", "RadauIIA5", "LobattoIIIC4", "CrankNicolson")]
    for M in sm:
        for h in (0.125, -0.125):
            for s in scripts:
                cases.append(dict(section="script", method=M.__name__, script=s, tail="T", h=h, seed=seed))
                cases.append(dict(section="script", method=M.__name__, script=s, tail="T", h=h, seed=seed, ctrl="user"))
            for tail in ("F", "L"):
                cases.append(dict(section="script", method=M.__name__, script="", tail=tail, h=h, seed=seed))
                cases.append(dict(section="script", method=M.__name__, script="", tail=tail, h=h, seed=seed, ctrl="user"))
                cases.append(dict(section="script", method=M.__name__, script="T" if tail == "F" else "F", tail=tail, h=h, seed=seed)) if False else None
    for i in range(0, len(cases), max(1, len(cases) // 8)):
        cases[i]["sample"] = True
    return cases


def run(ctx):
    ctx.rule = ("full product method(29 RK) x dtype x rhs program x shape x t x h (signed), two chained calls each; splitting: 3 methods x masks x programs; "
                "E2: every answer string over {truthful, forced failure, lying success} up to length %d followed by truthful answers, plus the all-fail and all-lie strings; "
                "distinct = distinct (section, method, dtype, program, shape-rank, kind) classes" % (3 if ctx.quick else 4))
    ctx.assumptions += [
        "stage residuals are re-evaluated in longdouble from the library's own stage slopes; rounding bound 64*eps*((1+L)(|y|+|h| sum|a||k|)+|f|) with L the program's Lipschitz bound",
        "implicit steps: ||k - f(..)||_2 <= documented Newton tolerance 0.5*(atol + max|rtol*y|) (strict test in the library) + rounding",
        "a FailedToMeetTolerances is a reported failure, not an accepted step (counted in not_accepted)",
    ]
    cases = build_cases(ctx)
    grid.pmap(run_case, cases, ctx, horizon=300)
    ctx.note("cases", total=len(cases))


def replay(case):
    case = dict(case)
    for k in ("call", "stage"):
        case.pop(k, None)
    return run_case(case)
