"""C03 — integration covers exactly the requested span, in order (E1: BFS over integrate / integrate(T) / dt= histories)."""
import numpy as np

from mc.core.ctx import Res
from mc.core import grid, explore
from mc.ref import driver
from mc.props import loopcommon as lc

LEVEL = "model_checking"
METHODS = ["EulerSolver", "RK4Solver", "ABAs5o6HSolver", "RK45CKSolver", "DOPRI45", "ImplicitMidpoint", "RadauIIA5"]


def ops_fn(cfg, hist):
    ops = [("int",)] + [("intT", T) for T in lc.LATTICE] + [("intF", 1, 3), ("intF", -5, 7)]
    if not any(o[0] == "dt" for o in hist):
        ops += [("dt", 0.125), ("dt", 4.0)]
    return ops


def step(cfg, hist):
    r = Res()
    a, f, y0, dtype = lc.fresh(cfg)
    t0_first = a.t[0].copy()
    obs = None
    # y' = const never forces a step below the requested one: a tight budget; the oscillator at tol 1e-6 may need thousands of steps
    extra = 400 if cfg["rhs"] == "const" else 20000
    for op in hist:
        obs = lc.apply_op(a, op, dtype, budget_extra=extra)
        if obs.get("raised"):
            break
    r.n = 1
    case = dict(cfg, hist=[list(o) for o in hist])
    name = cfg["method"]
    if obs is not None and obs["op"][0] in ("int", "intT", "intF", "intU", "intE", "intTE"):
        if obs["raised"] == "budget":
            r.v("C03/runaway/%s" % name, "integration to a finite target terminates", case,
                observed=dict(steps=obs["steps"], t_last=float(a.t[-1]), target=obs["target"], rows=len(a)), expected="about %d steps" % driver.min_steps(obs["t_before"], obs["target"], obs["dt_before"] or 1))
            r.out(("runaway", name)); r.ret = None
            return r
        if obs["raised"]:
            # the property speaks about successful integrations only; a raise is counted, not judged here
            r.add("raised"); r.out(("raised", name, lc.family(name)))
            r.ret = None
            return r
        ok = driver.segment_invariants(r, "C03", case, a.t, a.y, obs["i0"], obs["i1"], obs["target_exact"], t0_first, y0, dtype)
        if ok and obs["i1"] > obs["i0"] and not a.success:
            r.v("C03/status/%s" % name, "a completed integration reports success", case, observed=a.integration_status, expected="success")
        if ok and cfg["rhs"] == "const":
            T = np.asarray(a.t, dtype=LD_); Y = np.asarray(a.y, dtype=LD_)
            want = np.asarray(y0, dtype=LD_)[None, :] + (T - T[0])[:, None] * np.asarray(lc.CONST_SLOPE, dtype=LD_)[None, :]
            # rounding: the states accumulate c*dt_k while the times accumulate t + dt_k, each rounded at its own magnitude (|y| ~ 1..8, |t| up to 1e6)
            tol = 64 * max(driver.eps_of(dtype), 2.0 ** -52) * (len(T) + 4) * max(8.0, float(np.max(np.abs(T)))) + (1e-5 if lc.family(name).startswith("implicit") else 0)
            if np.max(np.abs(Y - want)) > tol:
                k = int(np.argmax(np.max(np.abs(Y - want), axis=1)))
                r.v("C03/pairing/%s" % name, "each state row belongs to its time row (y' = const is integrated exactly)", dict(case, row=k),
                    observed=dict(t=float(T[k]), y=Y[k].astype(float), want=want[k].astype(float)), expected="y_k = y0 + c (t_k - t0)")
        for v in r.viol:
            v["key"] = v["key"] + "/" + name if v["key"].count("/") == 1 else v["key"]
        d = np.sign(obs["target"] - obs["t_before"])
        r.out(("seg", name, cfg["dtype"], int(d), int(np.sign(obs["t_before"])), int(np.sign(obs["target"])), min(obs["i1"] - obs["i0"], 9)))
    else:
        r.out(("noop", name))
    r.ret = driver.canon(a)
    if len(hist) >= 1 and hash(str(case)) % 997 == 0:
        r.samples.append(dict(config=cfg, history=[list(o) for o in hist], rows=len(a), t_last=float(a.t[-1])))
    return r


LD_ = np.longdouble


def growth_case(case):
    """buffers: more rows than pre-allocated (dt shrunk by a callback), beyond the 5000-row cap, with events."""
    de, I = lc._imports()
    r = Res()
    dtype = lc.DT[case["dtype"]]
    f = lc.rhs_of("const")
    y0 = np.array(lc.Y0, dtype=dtype)
    t0, tf = dtype(case["t0"]), dtype(case["tf"])
    a = de.OdeSystem(f, y0=y0, t=(t0, tf), dt=dtype(case["dt0"]))
    a.method = lc.by_name(case["method"])
    cbs = []
    if case["kind"] == "shrink":
        st = dict(done=False)

        def shrink(s):
            if not st["done"]:
                st["done"] = True
                s.dt = s.dt / 16
        cbs.append(shrink)
    evs = None
    if case["kind"] == "events":
        def e1(t, y, **kw):
            return y[0] - (lc.Y0[0] + np.sign(float(tf - t0)) * 0.3)

        def e2(t, y, **kw):
            return t - (float(t0) + 0.61 * float(tf - t0))
        evs = [e1, e2]
    span = abs(float(tf - t0))
    lim = int(8 * span / abs(float(case["dt0"])) * (16 if case["kind"] == "shrink" else 1) + 400)
    b = driver.Budget(lim)
    if case["kind"] == "events-multi":
        # one non-terminal event function with a root in the middle of EVERY step of the requested size, several integrate(t) calls:
        # later calls pre-allocate exactly int(span/dt) rows, so steps land in the last slot of the buffer while events are being processed
        dt_ = abs(float(case["dt0"]))

        def e_all(t, y, **kw):
            return np.asarray(np.cos(np.pi * (t - float(t0)) / dt_))
        evs = [e_all]
    try:
        if case["kind"] == "events-multi":
            for frac in case["cuts"]:
                a.integrate(dtype(float(t0) + frac * float(tf - t0)), callback=cbs + [b], events=evs)
        a.integrate(callback=cbs + [b], events=evs)
    except de.exception_types.FailedIntegration as e:
        r.n = 1
        if driver.budget_hit(e):
            r.v("C03/runaway/%s" % case["method"], "integration to a finite target terminates", case, observed=dict(rows=len(a)), expected="terminates")
        else:
            r.add("raised"); r.out(("growth-raised", case["method"]))
        return r
    r.n = 1
    ok = driver.segment_invariants(r, "C03", case, a.t, a.y, 0, len(a) - 1, float(tf), t0, y0, dtype)
    for v in r.viol:
        v["key"] = v["key"] + "/" + case["method"]
    if ok:
        T = np.asarray(a.t, dtype=LD_); Y = np.asarray(a.y, dtype=LD_)
        want = np.asarray(y0, dtype=LD_)[None, :] + (T - T[0])[:, None] * np.asarray(lc.CONST_SLOPE, dtype=LD_)[None, :]
        if np.max(np.abs(Y - want)) > 64 * max(driver.eps_of(dtype), 2.0 ** -52) * (len(T) + 4) * 8:
            r.v("C03/pairing/%s" % case["method"], "each state row belongs to its time row", case, observed=dict(max_err=float(np.max(np.abs(Y - want)))), expected="exact for y'=const")
        if case["kind"] == "events" and len(a.events) < 2:
            pass  # event location is C07/C08's
    r.out(("growth", case["kind"], case["method"], case["dtype"], len(a) > 5000, len(a) > 100))
    r.samples.append(dict(section="growth", case=case, rows=len(a)))
    return r


def configs(ctx):
    out = []
    spans = [(a, b) for a in lc.LATTICE for b in lc.LATTICE if a != b]
    dts = [0.25, 0.5, 0.75, 3.0, -0.25]
    sub_spans = SUB_SPANS = [(-2.0, -0.5), (-0.5, -2.0), (2.0, 0.5), (0.5, 2.0), (-1.0, 1.0), (1.0, -1.0), (0.0, 2.0), (0.0, -2.0), (-2.0, 0.0), (2.0, 0.0), (-1.0, -2.0), (1.0, 2.0)]
    for m in METHODS:
        for (t0, tf) in spans:
            for dt0 in dts:
                deep = (t0, tf) in sub_spans and dt0 in (0.25, 3.0, -0.25)
                # quick: depth 2 on the sub-lattice, 1 elsewhere; thorough: depth 3 on the sub-lattice, 2 elsewhere
                out.append(dict(method=m, dtype="float64", rhs="const", t0=t0, tf=tf, dt0=dt0, _depth=((3 if deep else 2) if not ctx.quick else (2 if deep else 1))))
        for (t0, tf) in sub_spans:
            for dt0 in (0.25, 3.0):
                for dn in ("float32", "longdouble"):
                    out.append(dict(method=m, dtype=dn, rhs="const", t0=t0, tf=tf, dt0=dt0, _depth=1 if ctx.quick else 2))
                out.append(dict(method=m, dtype="float64", rhs="osc", t0=t0, tf=tf, dt0=dt0, _depth=2))
    if not ctx.quick:
        for m in METHODS:
            for (t0, tf) in spans:
                for dt0 in (0.25, 0.75, -0.25):
                    for dn in ("float32", "longdouble"):
                        out.append(dict(method=m, dtype=dn, rhs="const", t0=t0, tf=tf, dt0=dt0, _depth=2))
                    out.append(dict(method=m, dtype="float64", rhs="osc", t0=t0, tf=tf, dt0=dt0, _depth=2))
    return out


def run(ctx):
    depth = 2 if ctx.quick else 3
    ctx.rule = ("E1 breadth-first search over histories of {integrate(), integrate(T) for T in 7-point lattice, integrate(1/3), integrate(-5/7) (targets not representable in a lower precision), dt=0.125, dt=4} to depth %d (on a sub-lattice of 12 spans x 3 dt; one less elsewhere) from every "
                "configuration (7 methods x 42 signed spans x 5 initial dt incl. oversized and negative x dtypes x {y'=const, oscillator}); states are "
                "deduplicated by a canonical hash of all carried state; every transition executes the real OdeSystem and is checked against the "
                "reference direction/target model; plus buffer-growth cells; distinct = distinct (method, dtype, direction, sign(t), sign(target), #rows) classes" % depth)
    ctx.assumptions += ["'a few rounding units' = 64*eps*max(1,|t_start|,|target|)", "a call that raises is outside C03's premise (successful integration) and only counted",
                        "every integrate runs under a step budget 8x the reference step count + 20000; exceeding it is a violation (run-away), not a hang"]
    cfgs = configs(ctx)
    if not ctx.only or "bfs" in ctx.only:
        explore.bfs(ctx, cfgs, ops_fn, step, depth, section="bfs", horizon=120)
    if not ctx.only or "growth" in ctx.only:
        cases = []
        for m in ["EulerSolver", "RK4Solver", "RK45CKSolver", "ABAs5o6HSolver"] + ([] if ctx.quick else ["ImplicitMidpoint", "DOPRI45"]):
            for (t0, tf) in ((0.0, 2.0), (2.0, -2.0), (-3.0, -1.0)):
                cases.append(dict(kind="shrink", method=m, dtype="float64", t0=t0, tf=tf, dt0=0.25))
                cases.append(dict(kind="events", method=m, dtype="float64", t0=t0, tf=tf, dt0=2.0 ** -9))
            for (t0, tf) in ((0.0, 3.0), (3.0, -3.0), (-6.0, -3.0)):
                for dt0 in (0.25, 0.5, 0.75):
                    for cuts in ([1.0 / 3, 2.0 / 3], [0.5], [0.25, 0.5, 0.75]):
                        cases.append(dict(kind="events-multi", method=m, dtype="float64", t0=t0, tf=tf, dt0=dt0, cuts=cuts))
            for dn in ("float64", "float32") if m in ("EulerSolver", "RK4Solver") else ("float64",):
                cases.append(dict(kind="long", method=m, dtype=dn, t0=0.0, tf=8.0, dt0=2.0 ** -10))
                cases.append(dict(kind="long", method=m, dtype=dn, t0=4.0, tf=-4.0, dt0=2.0 ** -10))
        grid.pmap(growth_case, cases, ctx, section="growth", horizon=900, chunksize=1)
    if not ctx.only or "far" in ctx.only:
        # the lattice of the search is dyadic and sits in |t| <= 2 so that every sum is exact; beside it, the same invariants for steps that are not dyadic
        # fractions (0.1, 0.3: the recorded end may differ from the target by rounding) and for spans far from the origin of the time axis (where one
        # unit in the last place of t exceeds any absolute tolerance of a few eps)
        fcases = []
        for m in METHODS:
            for dn in ("float64", "float32") + (() if ctx.quick else ("longdouble",)):
                offs = (0.0, 1000.0, -1000.0) + ((1.0e6, -1.0e6) if dn != "float32" else ()) if not ctx.quick else ((0.0, -1000.0) if dn == "float32" else (0.0, 1000.0, -1.0e6))
                for off in offs:
                    for (a_, b_) in ((0.0, 3.0), (3.0, 0.0)) + (() if ctx.quick else ((-1.0, 2.0), (1.0, -2.0))):
                        t0, tf = off + a_, off + b_
                        for dt0 in (0.1, 0.3, 0.25) if off != 0.0 else (0.1, 0.3):
                            mid = off + 0.5 * (a_ + b_)
                            for h in ([("int",), ("int",), ("intT", t0)], [("intT", mid), ("intT", mid), ("int",)], [("intT", tf), ("intT", mid)],
                                      [("int",), ("intU", 1), ("intU", -1)], [("intT", mid), ("intU", -2), ("dt", dt0), ("int",)], [("intU", 1), ("intU", 40), ("dt", dt0), ("int",)]):
                                # (after a target a few ulps away the library has clipped dt to half of that distance: the histories restore dt before going on)
                                fcases.append(dict(method=m, dtype=dn, rhs="const", t0=t0, tf=tf, dt0=dt0, far_hist=[list(o) for o in h]))
                                if m in ("RK45CKSolver", "RK4Solver") and dn == "float64" and dt0 == 0.1:
                                    fcases.append(dict(method=m, dtype=dn, rhs="osc", t0=t0, tf=tf, dt0=dt0, far_hist=[list(o) for o in h]))
        grid.pmap(far_case, fcases, ctx, section="far", horizon=90)
    if not ctx.only or "answers" in ctx.only:
        # E2 over environment answers: the integrator's answer "I took less than you asked" (what an adaptive method does after rejecting a trial step) is
        # scripted onto every call of the run in turn (then onto every pair of calls), on y' = const, where any step is exact: whichever step is cut short -
        # the first, one in the middle, the one clamped to the remaining distance - the run must still end at its target
        base_cfgs = []
        for m in ("RK4Solver", "EulerSolver", "ABAs5o6HSolver") + (() if ctx.quick else ("ImplicitMidpoint", "RK45CKSolver")):
            for (t0, tf) in [(-2.0, -0.5), (-0.5, -2.0), (2.0, 0.5), (0.5, 2.0), (-1.0, 1.0), (1.0, -1.0)]:
                for dt0 in (0.25, 0.75, 3.0):
                    for dn in ("float64",) if ctx.quick else ("float64", "float32"):
                        mid = 0.5 * (t0 + tf)
                        for h in ([["int"]], [["intT", mid], ["int"]], [["int"], ["intT", t0]]):
                            base_cfgs.append(dict(method=m, dtype=dn, rhs="const", t0=t0, tf=tf, dt0=dt0, far_hist=h))
        ncalls = grid.pmap(count_calls, base_cfgs, ctx, section="answers", horizon=90, collect=True)
        acases = []
        for c, n in zip(base_cfgs, ncalls):
            if not n:
                continue
            for mode in ("keep", "back"):
                for frac in (0.5, 0.125):
                    for k in range(n):
                        acases.append(dict(c, method="SCRIPT:%s:%s:%d=%s" % (c["method"], mode, k, frac)))
                if not ctx.quick or (c["dt0"] == 0.75 and len(c["far_hist"]) == 1):
                    for k1 in range(n):
                        for k2 in range(k1 + 1, min(n + 2, k1 + 4)):
                            acases.append(dict(c, method="SCRIPT:%s:%s:%d=0.5,%d=0.25" % (c["method"], mode, k1, k2)))
        ctx.extra["scripted_answer_runs"] = len(acases)
        grid.pmap(far_case, acases, ctx, section="answers", horizon=90)
    if not ctx.only or "eta" in ctx.only:
        # the progress display (eta=True) reads time, target and step at every step: the same runs with it switched on, incl. oversized, tiny and negative steps
        ecases = []
        for m in ("RK4Solver", "RK45CKSolver", "ABAs5o6HSolver", "ImplicitMidpoint"):
            for (t0, tf) in [(-2.0, -0.5), (2.0, 0.5), (-1.0, 1.0), (1.0, -1.0), (0.0, 2.0)]:
                for dt0 in (0.25, 3.0, -0.25, 2.0 ** -6):
                    mid = 0.5 * (t0 + tf)
                    for h in ([["intE"]], [["intTE", mid], ["intE"]], [["intE"], ["intTE", t0]], [["intT", mid], ["dt", 4.0], ["intE"]]):
                        ecases.append(dict(method=m, dtype="float64", rhs="const", t0=t0, tf=tf, dt0=dt0, far_hist=h))
        grid.pmap(far_case, ecases, ctx, section="eta", horizon=90)
    if not ctx.only or "shape" in ctx.only:
        scases = []
        for m in ["EulerSolver", "RK4Solver", "RK45CKSolver", "DOPRI45", "ABAs5o6HSolver", "ImplicitMidpoint"] + ([] if ctx.quick else ["RadauIIA5", "RK8713MSolver", "BackwardEuler"]):
            for shape in ([], [1], [2, 3], [2, 1, 2]):
                if shape == [] and m == "ABAs5o6HSolver":
                    continue            # a splitting method needs at least two variables
                for span in ([0.0, 2.0], [1.0, -1.0], [-1000.0, -1002.0]):
                    for dn in ("float64", "float32") if ctx.quick else ("float64", "float32", "longdouble"):
                        for dt0 in (0.25, 0.1):
                            for dense in (False, True):
                                scases.append(dict(method=m, shape=shape, span=span, dtype=dn, dt0=dt0, dense=dense))
        grid.pmap(shape_case, scases, ctx, section="shape", horizon=300)


def count_calls(case):
    """pass 0 of the scripted-answer enumeration: the number of integrator calls of the undisturbed run (which is itself judged)"""
    c = dict(case, method="SCRIPT:%s:keep:" % case["method"])
    r = far_case(c)
    r.ret = lc.SCRIPT_LAST["state"]["n"]
    return r


def far_case(case):
    """a fixed history from a configuration far from the origin of the time axis and/or with a step that is not a dyadic fraction: every prefix is judged"""
    cfg = {k: v for k, v in case.items() if k not in ("far_hist",)}
    hist = tuple(tuple(o) for o in case["far_hist"])
    r = Res()
    for n in range(1, len(hist) + 1):
        x = step(cfg, hist[:n])
        x.ret = None
        r.merge(x)
    return r


def shape_case(case):
    """state arrays of every rank (scalar, (1,), matrix, rank 3): y' = C (constant array) is integrated exactly by every method, so every row must pair with
    its time; with one time event in the run and two calls"""
    de, I = lc._imports()
    r = Res()
    dtype = lc.DT[case["dtype"]]
    shape = tuple(case["shape"])
    n = int(np.prod(shape)) if shape else 1
    C = (np.arange(1, n + 1, dtype=np.float64).reshape(shape) / 4.0 - 0.75).astype(dtype) if shape else dtype(0.5)
    y0 = (np.arange(n, dtype=np.float64).reshape(shape) / 8.0 - 0.25).astype(dtype) if shape else dtype(-0.25)

    def f(t, y, **kw):
        return np.asarray(C, dtype=y.dtype) + 0 * y
    t0, tf = case["span"]
    mid = t0 + 0.4375 * (tf - t0)

    def ev(t, y, **kw):
        return np.asarray(t - dtype(t0 + 0.7 * (tf - t0)))
    a = de.OdeSystem(f, y0=y0, t=(dtype(t0), dtype(tf)), dt=dtype(case["dt0"]), rtol=dtype(1e-6), atol=dtype(1e-6), dense_output=bool(case["dense"]))
    a.method = lc.by_name(case["method"])
    name = case["method"]
    r.n = 1
    try:
        i0 = 0
        for target in (mid, tf):
            a.integrate(dtype(target), events=[ev], callback=driver.Budget(5000))
            ok = driver.segment_invariants(r, "C03/shape", dict(case, target=float(target)), a.t, a.y, i0, len(a) - 1, dtype(target), dtype(t0), np.asarray(y0, dtype=dtype), dtype)
            if not ok:
                break
            i0 = len(a) - 1
        else:
            T = np.asarray(a.t, dtype=LD_)
            Y = np.asarray(a.y, dtype=LD_).reshape(len(T), -1)
            want = np.asarray(y0, dtype=LD_).reshape(1, -1) + (T - T[0])[:, None] * np.asarray(C, dtype=LD_).reshape(1, -1)
            tol = 64 * max(driver.eps_of(dtype), 2.0 ** -52) * (len(T) + 4) * 8 + (1e-5 if lc.family(name).startswith("implicit") else 0)
            if np.asarray(a.y).shape != (len(T),) + shape:
                r.v("C03/shape/layout/%s" % name, "times and states stay paired one-to-one (one state of the shape of y0 per time)", case, observed=list(np.asarray(a.y).shape), expected=[len(T)] + list(shape))
            elif np.max(np.abs(Y - want)) > tol:
                k = int(np.argmax(np.max(np.abs(Y - want), axis=1)))
                r.v("C03/shape/pairing/%s" % name, "each state row belongs to its time row (y' = const is integrated exactly)", dict(case, row=k),
                    observed=dict(t=float(T[k]), err=float(np.max(np.abs(Y[k] - want[k])))), expected="y_k = y0 + C (t_k - t0)")
            if len(a.events) != 1:
                r.v("C03/shape/events/%s" % name, "the run with one time event records it once", case, observed=len(a.events), expected=1)
    except de.exception_types.FailedIntegration as e:
        if driver.budget_hit(e):
            r.v("C03/runaway/%s" % name, "integration to a finite target terminates", case, observed=dict(rows=len(a)), expected="terminates")
        else:
            r.add("raised")
    for v in r.viol:
        if v["key"].count("/") == 2 and v["key"].startswith("C03/shape/") and not v["key"].endswith(name):
            v["key"] = v["key"] + "/" + name
    r.out(("shape", name, case["dtype"], len(shape), case["dense"], t0 < tf))
    return r


def replay(case):
    if "shape" in case:
        return shape_case({k: v for k, v in case.items() if k not in ("target", "row")})
    if "far_hist" in case:
        return far_case(case)
    if "kind" in case:
        return growth_case(case)
    cfg = {k: v for k, v in case.items() if k not in ("hist", "row", "_depth")}
    return step(cfg, tuple(tuple(o) for o in case["hist"]))
