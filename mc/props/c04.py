"""C04 — fixed-step methods take the requested step wherever the time axis sits; shift / reflection invariance."""
import numpy as np

from mc.core.ctx import Res
from mc.core import grid
from mc.ref import driver
from mc.props import loopcommon as lc

LEVEL = "exploration"
LD = np.longdouble
GROW = (1.0 + np.pi / 2) * (1.0 + 0.1 * np.pi / 2)   # limiters of the step controller and of its implicit-aware factor


def run_fixed(cfg):
    de, I = lc._imports()
    a, f, y0, dtype = lc.fresh(cfg)
    obs = lc.apply_op(a, ("int",), dtype)
    return a, obs, dtype


def grid_case(case):
    r = Res()
    a, obs, dtype = run_fixed(case)
    name = case["method"]
    r.n = 1
    if obs["raised"]:
        if obs["raised"] == "budget":
            r.v("C04/runaway/%s" % name, "integration terminates", case, observed=dict(rows=len(a)), expected="terminates")
        else:
            r.add("raised"); r.out(("raised", name))
        return r
    T = [float(x) for x in a.t]
    want = [float(case["t0"])] + driver.ref_grid(case["t0"], case["tf"], case["dt0"])
    fam = lc.family(name)
    dt = abs(case["dt0"])
    steps = np.abs(np.diff(np.asarray(a.t, dtype=LD))).astype(float)
    if fam.startswith("implicit"):
        e = driver.eps_of(dtype)
        longer = steps > dt * (1 + 8 * e)
        if longer.any():
            ratios = steps[1:] / steps[:-1]
            grow_pattern = abs(steps[0] - dt) <= 8 * e * dt and np.all(ratios[:-1] <= GROW * (1 + 1e-9)) and np.all(ratios[:-1] >= 1 - 1e-9)
            key = "C04/implicit-growth/%s" % name if grow_pattern else "C04/grid/%s" % name
            r.v(key, "no recorded step is longer than the requested dt (an implicit method may only shorten)", case,
                observed=dict(steps=steps[:8].tolist(), dt=dt), expected="all |dt_k| <= dt")
        elif T[-1] != want[-1]:
            r.v("C04/grid/%s" % name, "grid ends at the target", case, observed=T[-3:], expected=want[-1])
        r.out(("grid", fam, case["dtype"], bool(longer.any()), len(T) == len(want)))
    else:
        if T != want:
            k = next((i for i, (x, y) in enumerate(zip(T, want)) if x != y), min(len(T), len(want)))
            r.v("C04/grid/%s" % name, "every step but the last has exactly the requested magnitude", case,
                observed=dict(first_diff_at=k, got=T[max(0, k - 1):k + 3], rows=len(T)), expected=dict(want=want[max(0, k - 1):k + 3], rows=len(want)))
        r.out(("grid", fam, case["dtype"], int(np.sign(case["tf"] - case["t0"])), int(np.sign(case["t0"])), int(np.sign(case["tf"])), len(want) > 2))
    if case.get("sample"):
        r.samples.append(dict(section="grid", case={k: v for k, v in case.items() if k != "sample"}, rows=len(T)))
    return r


def inexact_case(case):
    """beside the dyadic lattice: steps that are not dyadic fractions and spans far from the origin.  No exact reference grid exists; the statement is
    applied with the rounding of t + dt: every step but the last equals dt to 2 units in the last place of the larger end, none is longer, the number
    of steps is the smallest that covers the span (give or take the one rounding decides), and the last step is not longer than dt."""
    r = Res()
    a, obs, dtype = run_fixed(case)
    name = case["method"]
    r.n = 1
    if obs["raised"]:
        if obs["raised"] == "budget":
            r.v("C04/runaway/%s" % name, "integration terminates", case, observed=dict(rows=len(a)), expected="terminates")
        else:
            r.add("raised"); r.out(("raised", name))
        return r
    T = np.asarray(a.t, dtype=LD)
    dt = abs(LD(dtype(case["dt0"])))
    steps = np.abs(np.diff(T))
    if len(steps) == 0:
        r.v("C04/inexact-grid/%s" % name, "the span is covered", case, observed="no step recorded", expected="steps")
        return r
    ulp = np.array([float(np.spacing(dtype(max(abs(float(T[k])), abs(float(T[k + 1])))))) for k in range(len(steps))], dtype=LD)
    body, last = steps[:-1], steps[-1]
    bad = np.nonzero(np.abs(body - dt) > 2 * ulp[:-1])[0]
    span = abs(LD(dtype(case["tf"])) - LD(dtype(case["t0"])))
    nmin = int(np.ceil(float(span / dt) - 1e-6))
    if len(bad):
        k = int(bad[0])
        r.v("C04/inexact-grid/%s" % name, "every recorded step except possibly the last has exactly the requested magnitude (to the rounding of t + dt)", case,
            observed=dict(index=k, step=float(body[k]), dt=float(dt), ulp=float(ulp[k]), rows=len(T)), expected="|step - dt| <= 2 ulp")
    elif last > dt + 2 * ulp[-1]:
        r.v("C04/inexact-grid/%s" % name, "no recorded step is longer than the requested dt", case, observed=dict(last=float(last), dt=float(dt)), expected="<= dt")
    elif not (nmin <= len(steps) <= nmin + 1):
        r.v("C04/inexact-grid/%s" % name, "the span is covered with steps of the requested size", case, observed=dict(steps=len(steps)), expected=dict(smallest=nmin))
    r.out(("inexact", lc.family(name), case["dtype"], int(np.sign(case["tf"] - case["t0"])), abs(case["t0"]) > 100))
    return r


def thereback_case(case):
    """one system integrates from t0 to T and then back to t0 (fixed-step methods, dt dividing the span): the backward leg must be the one a FRESH system
    started at (T, y(T)) produces - step for step, bit for bit: whatever the integrator remembers from the forward leg must not leak into the backward one"""
    de, I = lc._imports()
    r = Res()
    name = case["method"]
    dtype = lc.DT[case["dtype"]]
    f = pend(kind=case.get("prob", "pendulum"))
    t0, T, dt0 = case["t0"], case["tf"], case["dt0"]
    a = de.OdeSystem(f, y0=np.array([0.75, -0.25], dtype=dtype), t=(dtype(t0), dtype(T)), dt=dtype(dt0), rtol=dtype(1e-7), atol=dtype(1e-7))
    a.method = lc.by_name(name)
    r.n = 1
    try:
        a.integrate(callback=driver.Budget(20000))
        n1 = len(a)
        a.dt = dtype(dt0)
        a.integrate(dtype(t0), callback=driver.Budget(20000))
        b = de.OdeSystem(f, y0=np.array(a.y[n1 - 1]), t=(a.t[n1 - 1], dtype(t0)), dt=dtype(dt0), rtol=dtype(1e-7), atol=dtype(1e-7))
        b.method = lc.by_name(name)
        b.integrate(callback=driver.Budget(20000))
    except de.exception_types.FailedIntegration as e:
        r.add("raised")
        return r
    tb, yb = np.asarray(a.t[n1 - 1:]), np.asarray(a.y[n1 - 1:])
    if len(tb) != len(b) or not np.array_equal(tb, np.asarray(b.t)) or not np.array_equal(yb, np.asarray(b.y)):
        err = float(np.max(np.abs(yb - np.asarray(b.y)))) if len(tb) == len(b) else float("inf")
        r.v("C04/there-and-back/%s" % name, "the backward leg of a there-and-back run equals a fresh backward run from the turning point (fixed-step method)", case,
            observed=dict(rows=[len(tb), len(b)], max_diff=err), expected="bit-identical")
    r.out(("thereback", lc.family(name), case["dtype"], T > t0))
    return r


def continue_case(case):
    """a run whose LAST step was clipped to land on the end point is continued to a later end point (two hops): the clipped step is not 'the requested
    step' - the system still holds dt0 after the first hop, and every step of the second hop but its last has exactly that magnitude (dyadic lattice,
    compared with ==)"""
    de, I = lc._imports()
    r = Res()
    name = case["method"]
    a, f, y0, dtype = lc.fresh(case)
    r.n = 1
    want = [float(case["t0"])]
    for target in (case["t1"], case["t2"]):
        obs = lc.apply_op(a, ("intT", target), dtype)
        if obs["raised"]:
            if obs["raised"] == "budget":
                r.v("C04/runaway/%s" % name, "integration terminates", case, observed=dict(rows=len(a)), expected="terminates")
            else:
                r.add("raised"); r.out(("raised", name))
            return r
        want += driver.ref_grid(want[-1], target, case["dt0"])
        if case.get("short"):
            continue
        if target == case["t1"] and abs(float(a.dt)) != abs(case["dt0"]):
            r.v("C04/carried-step/%s" % name, "after a run whose last step was clipped the system still holds the requested step", case,
                observed=dict(dt=float(a.dt)), expected=dict(magnitude=case["dt0"]))
    T = [float(x) for x in a.t]
    if case.get("short"):
        # the first target is nearer than one step: the library may go there in shorter steps (and keeps them), but nothing it records afterwards is
        # LONGER than the requested step, and both targets are met
        steps = np.abs(np.diff(np.asarray(a.t, dtype=LD))).astype(float)
        if len(steps) == 0 or steps.max() > abs(case["dt0"]) or T[-1] != float(case["t2"]) or float(case["t1"]) not in T:
            r.v("C04/grid-continued-short/%s" % name, "no recorded step is longer than the requested dt, in any call", case,
                observed=dict(longest=float(steps.max()) if len(steps) else None, end=T[-1], rows=len(T)), expected=dict(dt=case["dt0"], end=case["t2"]))
        r.out(("continue-short", lc.family(name), case["dtype"], int(np.sign(case["t1"] - case["t0"]))))
        return r
    if T != want:
        k = next((i for i, (x, y) in enumerate(zip(T, want)) if x != y), min(len(T), len(want)))
        r.v("C04/grid-continued/%s" % name, "every step but the last of each call has exactly the requested magnitude", case,
            observed=dict(first_diff_at=k, got=T[max(0, k - 1):k + 3], rows=len(T)), expected=dict(want=want[max(0, k - 1):k + 3], rows=len(want)))
    r.out(("continue", lc.family(name), case["dtype"], int(np.sign(case["t1"] - case["t0"])), int(np.sign(case["t2"] - case["t1"]))))
    return r


def pend(sign=1.0, kind="pendulum"):
    if kind == "oscillator":
        def f(t, y, **kw):
            return sign * np.array([y[1], -y[0]], dtype=y.dtype)
    elif kind == "damped":
        def f(t, y, **kw):
            return sign * np.array([y[1], -np.sin(y[0]) - 0.5 * y[1]], dtype=y.dtype)
    else:
        def f(t, y, **kw):
            return sign * np.array([y[1], -np.sin(y[0])], dtype=y.dtype)
    return f


def run_span(method, dtype, f, t0, tf, dt0, tol):
    de, I = lc._imports()
    y0 = np.array([0.75, -0.25], dtype=dtype)
    a = de.OdeSystem(f, y0=y0, t=(dtype(t0), dtype(tf)), dt=dtype(dt0), rtol=dtype(tol), atol=dtype(tol))
    a.method = lc.by_name(method)
    b = driver.Budget(40000)
    a.integrate(callback=b)
    return a


def invariance_case(case):
    de, I = lc._imports()
    r = Res()
    name = case["method"]
    dtype = lc.DT[case["dtype"]]
    fam = lc.family(name)
    tol = case.get("tol", 1e-7)
    t0, tf, dt0 = case["t0"], case["tf"], case["dt0"]
    try:
        prob = case.get("prob", "pendulum")
        base = run_span(name, dtype, pend(kind=prob), t0, tf, dt0, tol)
        if case["kind"] == "shift":
            c = case["c"]
            other = run_span(name, dtype, pend(kind=prob), t0 + c, tf + c, dt0, tol)
        else:
            other = run_span(name, dtype, pend(-1.0, kind=prob), -t0, -tf, dt0, tol)
    except de.exception_types.FailedIntegration as e:
        r.n = 1
        if driver.budget_hit(e):
            r.v("C04/runaway/%s" % name, "integration terminates", case, observed="step budget exhausted", expected="terminates")
        else:
            r.add("raised"); r.out(("inv-raised", name))
        return r
    r.n = 1
    e = driver.eps_of(dtype)
    # 'fixed-step methods' of the statement: explicit, splitting and implicit methods without an embedded estimator.  An autonomous right-hand
    # side never sees t, so shifted / reflected runs perform the same arithmetic; only the final-step clamp (tf - t) differs by rounding.
    exact_family = fam in ("fixed-explicit", "splitting", "implicit-fixed")
    yb = np.asarray(base.y, dtype=LD); yo = np.asarray(other.y, dtype=LD)
    if exact_family:
        same_len = len(base) == len(other)
        thr = (16 if fam != "implicit-fixed" else 1e4) * e * max(1.0, float(np.abs(yb).max())) * len(base)
        if fam == "implicit-fixed":
            # the stage equations are solved to a tolerance, so two runs agree to the noise level of the nonlinear solver, far below the
            # tolerance itself (observed: 1e-13 in float64 via MINPACK, 2e-11 in longdouble via the built-in solver; a real dependence on t is >= 1e-2)
            thr = max(thr, 1e-2 * tol * max(1.0, float(np.abs(yb).max())))
            if case["dtype"] != "float64":
                # outside float64 the stage equations go through the built-in dogleg/Newton solver, which stops as soon as its tolerance is met
                # (MINPACK, used for float64, overshoots it by orders of magnitude): two runs then agree to the nonlinear-solver tolerance, which is
                # all C02 grants an implicit step ('to the nonlinear-solver tolerance for implicit ones'), amplified by the grown steps of F8
                thr = max(thr, 100 * tol * max(1.0, float(np.abs(yb).max())))
        err = float(np.abs(yb - yo).max()) if same_len else float("inf")
    else:
        thr = 200 * tol * max(1.0, float(np.abs(yb).max()))
        err = float(np.abs(yb[-1] - yo[-1]).max())
    ends_ok = abs(float(other.t[-1]) - (tf + case.get("c", 0.0) if case["kind"] == "shift" else -tf)) <= 64 * e * 8
    key = "C04/%s/%s" % (case["kind"], name)
    if not ends_ok:
        pass   # ending at the target is C03's clause
    elif err > thr:
        r.v(key, "%s of an autonomous problem changes the states only at %s level" % ("a time shift" if case["kind"] == "shift" else "time reflection", "rounding" if exact_family else "tolerance"),
            case, observed=dict(err=err, threshold=thr, rows=[len(base), len(other)], bit_identical=False), expected="<= threshold")
    r.out((case["kind"], fam, case["dtype"], bool(err == 0.0)))
    if case.get("sample"):
        r.samples.append(dict(section=case["kind"], case={k: v for k, v in case.items() if k != "sample"}, err=err, rows=len(base)))
    return r


def run_case(case):
    if case["section"] == "thereback":
        return thereback_case(case)
    if case["section"] == "continue":
        return continue_case(case)
    return grid_case(case) if case["section"] == "grid" else (inexact_case(case) if case["section"] == "inexact" else invariance_case(case))


def run(ctx):
    ctx.rule = ("O1: 10 fixed-step explicit/splitting + 13 implicit methods without estimator x 42 signed spans over {-3..3}^2 x dt in {1/4,1/2,3/4} x 3 dtypes, "
                "recorded grid compared EXACTLY with the reference grid (dyadic lattice); O2/O3: all 32 methods x spans x shifts {-4, 0.5, 4} / reflection on the pendulum; "
                "distinct = distinct (section, family, dtype, direction, signs, exactness) classes")
    ctx.assumptions += ["lattice times/steps are multiples of 1/4 with |t| <= 3: every sum the loop forms is exact, so grids are compared with ==",
                        "shift/reflection: rounding level = 16*eps*scale*rows for fixed-step explicit and splitting methods (bit-identical today), 1e4*eps*scale*rows for implicit methods without estimator (1e-13 observed), 200*tol for adaptive ones (final state)"]
    cases = []
    spans = [(a, b) for a in range(-3, 4) for b in range(-3, 4) if a != b]
    k = 0
    for m in lc.FIXED_EXPLICIT + lc.SPLITTING + lc.IMPLICIT_FIXED:
        for (t0, tf) in spans:
            for dt0 in (0.25, 0.5, 0.75):
                for dn in lc.DT:
                    if ctx.quick and dn != "float64" and not ((t0, tf) in ((-3, -1), (3, 1), (-1, 2), (2, -3), (0, 3), (-2, 0)) and dt0 != 0.5):
                        continue
                    if ctx.quick and m in lc.IMPLICIT_FIXED and not ((t0 + tf) % 2 == 1 or dt0 == 0.75):
                        continue
                    k += 1
                    cases.append(dict(section="grid", method=m, dtype=dn, rhs="const" if (t0 + tf) % 2 else "osc", t0=float(t0), tf=float(tf), dt0=dt0, sample=(k % 499 == 0)))
    # the boundary of 'all dt <= span': dt equal to the span (one full step), dt half of it, and - on the inexact side - one rounding unit below the span
    for m in lc.FIXED_EXPLICIT + lc.SPLITTING + lc.IMPLICIT_FIXED:
        for (t0, tf) in spans:
            L = abs(t0 - tf)
            if L > 2:
                continue
            for dt0 in (float(L), float(L) / 2):
                for dn in (("float64",) if ctx.quick else lc.DT):
                    if ctx.quick and m in lc.IMPLICIT_FIXED and (t0 + tf) % 2 == 0:
                        continue
                    cases.append(dict(section="grid", method=m, dtype=dn, rhs="const" if (t0 + tf) % 2 else "osc", t0=float(t0), tf=float(tf), dt0=dt0))
    for m in lc.FIXED_EXPLICIT + lc.SPLITTING:
        for (t0, tf) in ((0.0, 1.0), (1.0, 0.0), (-1.0, -2.0), (-2.0, -1.0), (3.0, 2.0), (-0.5, 0.5), (0.5, -0.5)):
            for dn in lc.DT:
                below = float(np.nextafter(lc.DT[dn](abs(tf - t0)), lc.DT[dn](0)))
                cases.append(dict(section="inexact", method=m, dtype=dn, rhs="const", t0=t0, tf=tf, dt0=below))
    for m in lc.FIXED_EXPLICIT + lc.SPLITTING:
        for (t0, tf) in ((0.0, 1.0), (1.0, -1.0), (-2.0, -1.0)):
            for dt0 in (0.125, 0.25, 0.3):
                for dn in (("float64",) if ctx.quick else lc.DT):
                    cases.append(dict(section="thereback", method=m, dtype=dn, t0=t0, tf=tf, dt0=dt0))
    # two hops, the first ending off the step lattice (its last step is clipped), in every combination of directions and signs
    for m in lc.FIXED_EXPLICIT + lc.SPLITTING:
        for (t0, t1, t2) in ((0.0, 1.125, 2.0), (0.0, -1.125, -2.0), (2.0, 0.875, 0.0), (-2.0, -0.875, 0.0), (-1.0, 0.125, 1.0), (1.0, -0.125, -1.0),
                             (0.0, 1.125, 0.0), (0.0, -1.125, 0.0), (-3.0, -1.875, -1.0), (-1.0, -2.125, -3.0)):
            for dt0 in (0.25, 0.5):
                for dn in (("float64",) if ctx.quick else lc.DT):
                    cases.append(dict(section="continue", method=m, dtype=dn, rhs="osc", t0=t0, tf=t2 if t2 != t0 else t1, t1=t1, t2=t2, dt0=dt0))
        for (t0, t1, t2) in ((0.0, 0.125, 2.0), (0.0, -0.125, -2.0), (2.0, 1.875, -1.0), (-1.0, -0.875, 3.0)):
            for dn in (("float64",) if ctx.quick else lc.DT):
                cases.append(dict(section="continue", short=True, method=m, dtype=dn, rhs="osc", t0=t0, tf=t2, t1=t1, t2=t2, dt0=0.5))
    allm = lc.FIXED_EXPLICIT + lc.SPLITTING + lc.ADAPTIVE_EXPLICIT + lc.IMPLICIT_FIXED + lc.IMPLICIT_ADAPTIVE
    ispans = [(0.0, 2.0), (-2.0, -0.5), (1.0, -1.0), (-3.0, 1.0), (3.0, 0.5)] if ctx.quick else [(float(a), float(b)) for a, b in spans if abs(a - b) <= 2]
    for m in allm:
        heavy = m in ("RadauIIA19", "RK1412Solver", "RK108Solver")
        for (t0, tf) in (ispans[:3] if (ctx.quick and (heavy or m in lc.IMPLICIT_FIXED + lc.IMPLICIT_ADAPTIVE)) else ispans):
            for dn in (("float64",) if (ctx.quick or heavy) else ("float64", "longdouble")):
                for c in (-4.0, 0.5, 4.0):
                    k += 1
                    cases.append(dict(section="inv", kind="shift", method=m, dtype=dn, t0=t0, tf=tf, dt0=0.25, c=c, sample=(k % 211 == 0)))
                cases.append(dict(section="inv", kind="reflect", method=m, dtype=dn, t0=t0, tf=tf, dt0=0.25))
                if m in lc.IMPLICIT_FIXED + lc.IMPLICIT_ADAPTIVE and not heavy:
                    # implicit methods: more steps and two more autonomous problems (the Newton iteration count must vary along the run)
                    for prob in ("oscillator", "damped"):
                        for c in (-7.0, 3.0, 100.0):
                            cases.append(dict(section="inv", kind="shift", method=m, dtype=dn, t0=t0, tf=t0 + 4.0 * (1 if tf > t0 else -1), dt0=0.05, c=c, prob=prob))
    for m in lc.FIXED_EXPLICIT + lc.SPLITTING:
        for off in (0.0, 1000.0, -1000.0, 1.0e6):
            for (a_, b_) in ((0.0, 3.0), (3.0, 0.0), (-1.0, 2.0), (1.0, -2.0)):
                for dt0 in (0.1, 0.3, 0.7):
                    for dn in lc.DT:
                        if dn == "float32" and abs(off) > 1000:
                            continue
                        if ctx.quick and dn != "float64" and not (dt0 == 0.1 and (a_, b_) in ((0.0, 3.0), (1.0, -2.0))):
                            continue
                        cases.append(dict(section="inexact", method=m, dtype=dn, rhs="osc" if dt0 == 0.3 else "const", t0=off + a_, tf=off + b_, dt0=dt0))
    # Richardson-extrapolated wrappers are adaptive methods in the shift / reflection relation too (their step control has its own code per base family)
    for m in ("RICH:EulerSolver:3", "RICH:SymplecticEulerSolver:2", "RICH:ABAs5o6HSolver:2", "RICH:ImplicitMidpoint:2") + (() if ctx.quick else ("RICH:RK4Solver:3", "RICH:SymplecticEulerSolver:4", "RICH:BABs9o7HSolver:2")):
        for (t0, tf) in ispans[:3] if ctx.quick else ispans:
            for c in (-4.0, 4.0):
                cases.append(dict(section="inv", kind="shift", method=m, dtype="float64", t0=t0, tf=tf, dt0=0.5, c=c, tol=1e-5))
            cases.append(dict(section="inv", kind="reflect", method=m, dtype="float64", t0=t0, tf=tf, dt0=0.5, tol=1e-5))
    grid.pmap(run_case, cases, ctx, horizon=600)
    ctx.note("cases", total=len(cases))


def replay(case):
    return run_case(case)
