"""C05 — adaptive integration keeps the global error proportional to the tolerances; retry protocol; honest give-up."""
import numpy as np

from mc.core.ctx import Res
from mc.core import grid
from mc.ref import driver
from mc.props import loopcommon as lc

LEVEL = "exploration"
LD = np.longdouble

PAIRS = ["RK45CKSolver", "DOPRI45", "HeunEulerSolver", "RK8713MSolver", "RK108Solver", "RK1412Solver", "LobattoIIIC4", "RadauIIA5", "RadauIIA19"]
RICH = ["RICH:EulerSolver:3", "RICH:MidpointSolver:3", "RICH:RK4Solver:3", "RICH:ImplicitMidpoint:3", "RICH:ABAs5o6HSolver:3", "RICH:SymplecticEulerSolver:3"]
SPLIT_RICH = ("RICH:ABAs5o6HSolver:3", "RICH:SymplecticEulerSolver:3")      # splitting bases: separable problem (rotation) only

# per-method constants C_m (error / (tolerance * amplification)); frozen table, see DESIGN 6 -- 10x the worst ratio observed on the repaired tree, rounded up
C_M = {"default": 20.0, "RICH:ABAs5o6HSolver:3": 100.0, "RICH:SymplecticEulerSolver:3": 100.0, "RICH:EulerSolver:3": 100.0, "RICH:MidpointSolver:3": 100.0, "RICH:ImplicitMidpoint:3": 100.0, "RICH:RK4Solver:3": 100.0}
# calibration (repaired tree, quick + thorough tiers): worst observed error/(tol*kappa) is 0.14 for the embedded pairs and 2.2 for the Richardson
# wrappers; C_m = 10x that, rounded up (20 / 100).  A seeded swap of atol and rtol raises the ratio to 50 .. 670.


def method_of(name):
    de, I = lc._imports()
    if name.startswith("RICH:"):
        _, base, k = name.split(":")
        return I.generate_richardson_integrator(lc.by_name(base), int(k))
    return lc.by_name(name)


# ---------------------------------------------------------------- problems with closed forms and amplification factors
def problem(name):
    """returns f, y0(t0), exact(t), kappa(t0, tf) (bound on the amplification of local errors), jac or None"""
    if name == "rotation":
        f = lambda t, y, **kw: np.array([y[1], -y[0]], dtype=y.dtype)
        ex = lambda t: np.array([np.sin(LD(t)), np.cos(LD(t))], dtype=LD)
        return f, ex, (lambda a, b: 1.0 + abs(b - a)), (lambda t, y, **kw: np.array([[0.0, 1.0], [-1.0, 0.0]]))
    if name == "damped":
        # y' = A y, A = [[-0.5, 2], [0, -1]] (non-normal coupling): y(t) via eigen decomposition
        A = np.array([[-0.5, 2.0], [0.0, -1.0]])
        f = lambda t, y, **kw: (A.astype(y.dtype) @ y)

        def ex(t):
            t = LD(t)
            # y0 at t=0 is [1, 1]; y2 = e^{-t}; y1' = -0.5 y1 + 2 e^{-t} -> y1 = c e^{-0.5t} - 4 e^{-t}, y1(0)=1 -> c = 5
            return np.array([5 * np.exp(-LD(0.5) * t) - 4 * np.exp(-t), np.exp(-t)], dtype=LD)
        # stable forward (non-normal transient growth < 6); integrating it backward amplifies by e^{|span|}
        return f, ex, (lambda a, b: 6.0 if b > a else 6.0 * float(np.exp(abs(b - a)))), (lambda t, y, **kw: A.copy())
    if name == "logistic":
        f = lambda t, y, **kw: y * (1 - y)
        ex = lambda t: np.array([1 / (1 + 3 * np.exp(-LD(t)))], dtype=LD)       # y(0) = 0.25
        return f, ex, (lambda a, b: 4.0 * float(np.exp(max(0.0, a - b)))), (lambda t, y, **kw: np.array([[1 - 2 * y[0]]]))
    if name == "rational":
        f = lambda t, y, **kw: -y * y
        ex = lambda t: np.array([1 / (LD(t) + 2)], dtype=LD)                     # y(0) = 0.5 ; valid for t > -2
        return f, ex, (lambda a, b: 4.0 * float(max(1.0, ((max(a, b) + 2) / (min(a, b) + 2)) ** 2))), (lambda t, y, **kw: np.array([[-2 * y[0]]]))
    if name == "ycos":
        f = lambda t, y, **kw: y * np.cos(t)
        ex = lambda t: np.array([np.exp(np.sin(LD(t)))], dtype=LD)               # y(0) = 1
        return f, ex, (lambda a, b: 2.0 * float(np.e ** 2)), (lambda t, y, **kw: np.array([[np.cos(t)]]))
    if name.startswith("stiff:"):
        # stiff linear decay y' = lambda y (a damped rotation as a real 2x2 block), lambda given in the direction of travel: what implicit methods are for.
        # The problem is anchored at t = 0, where |y| = 1; errors never grow (kappa = 1)
        _, re_, im_ = name.split(":")
        lam = complex(float(re_), float(im_))
        Mm = np.array([[lam.real, -lam.imag], [lam.imag, lam.real]])
        f = lambda t, y, sgn=1.0, **kw: sgn * (Mm.astype(y.dtype) @ y)

        def ex(t):
            tt = abs(LD(t))
            c = np.exp(LD(lam.real) * tt) * np.array([np.cos(LD(lam.imag) * tt), np.sin(LD(lam.imag) * tt)], dtype=LD)
            return c
        return f, ex, (lambda a, b: 1.0), None
    raise KeyError(name)


def build(case, wrap_step=False):
    de, I = lc._imports()
    f, ex, kappa, jac = problem(case["problem"])
    t0, tf = case["span"]
    dtype = lc.DT[case.get("dtype", "float64")]
    amp = case.get("amp", 1.0)          # linear problems only: the solution scales with the initial state
    y0 = np.asarray(ex(t0), dtype=dtype) * dtype(amp)
    consts_ = None
    if case["problem"].startswith("stiff:"):
        # y(t) = exp(lambda |t|) (1, 0) rotated: integrating from 0 toward -T with the reflected right-hand side is the same decay
        consts_ = dict(sgn=(1.0 if tf > t0 else -1.0))
    rhs = de.DiffRHS(f)
    if case.get("jac", True) and jac is not None:
        rhs.hook_jacobian_call(jac)
    via = case.get("via", "ctor")
    ckw = dict(constants=consts_) if consts_ is not None else {}
    rt_, at_ = dtype(case.get("rtol", case["tol"])), dtype(case.get("atol", case["tol"]))
    if via == "ctor":
        a = de.OdeSystem(rhs, y0=y0, t=(dtype(t0), dtype(tf)), dt=dtype(case["dt0"]), rtol=rt_, atol=at_, **ckw)
        a.method = method_of(case["method"])
    else:
        # the tolerances reach the system through its setters: the system is built with loose ones (1e-2) and tightened afterwards - before the method is
        # chosen, after it, or after a whole loose run and a reset.  What the run is judged against is what the system reports as its tolerances.
        a = de.OdeSystem(rhs, y0=y0, t=(dtype(t0), dtype(tf)), dt=dtype(case["dt0"]), rtol=dtype(1e-2), atol=dtype(1e-2), **ckw)
        if via == "before":
            a.rtol = rt_; a.atol = at_
            a.method = method_of(case["method"])
        elif via == "after":
            a.method = method_of(case["method"])
            a.atol = at_; a.rtol = rt_
        elif via == "rerun":
            a.method = method_of(case["method"])
            a.integrate(callback=driver.Budget(200000))
            a.reset()
            a.rtol = rt_; a.atol = at_
        else:
            raise KeyError(via)
        assert float(a.rtol) == float(rt_) and float(a.atol) == float(at_)
    if amp != 1.0:
        ex0 = ex
        ex = lambda t: ex0(t) * LD(amp)
    return a, ex, kappa


def accuracy_case(case):
    de, I = lc._imports()
    r = Res()
    name = case["method"]
    a, ex, kappa = build(case)
    log = []
    if not name.startswith("RICH"):
        # O3: observe every attempt of every integrator call through a subclass-free wrapper of the bound step method
        ig = a.integrator
        orig_step = ig.step
        orig_call = type(ig).__call__

        def step(rhs, t_, y_, consts, h):
            out = orig_step(rhs, t_, y_, consts, h)
            log.append(("attempt", float(h), bool(ig.solver_dict.get("newton_iteration_success", True))))
            return out
        ig.step = step
    else:
        # Richardson wrappers: log the verdict of the wrapper's own step controller for every attempt
        ig = a.integrator
        orig_ut = ig.update_timestep

        depth = dict(n=0)

        def ut(*a_, **k_):
            # update_timestep re-enters itself through the adaptation_fn indirection: log the outermost call only
            depth["n"] += 1
            try:
                new_dt, redo = orig_ut(*a_, **k_)
            finally:
                depth["n"] -= 1
            if depth["n"] == 0:
                log.append(("verdict", float(ig.solver_dict["timestep"]), bool(redo)))
            return new_dt, redo
        ig.update_timestep = ut
    t0, tf = case["span"]
    calls = []

    def cb(s):
        calls.append(len(log))
    b = driver.Budget(40000)
    r.n = 1
    try:
        # 'hops': the run is made in several calls (a nearby target first, then on to the end): the step the system carries from one call to the next
        # is an initial step like any other
        for hop in case.get("hops", []):
            a.integrate(lc.DT[case.get("dtype", "float64")](hop), callback=[cb, b])
        a.integrate(callback=[cb, b])
    except de.exception_types.FailedIntegration as e:
        if driver.budget_hit(e):
            r.add("out_of_budget"); r.out(("budget", name)); return r
        if isinstance(e.__cause__, de.exception_types.FailedToMeetTolerances):
            # honest give-up is allowed by the statement; but a smooth well-conditioned problem at these tolerances must be solvable in either direction
            r.v("C05/raises/%s" % name, "a well-conditioned smooth problem is integrated at the requested tolerance in both directions of time", case,
                observed=repr(e.__cause__)[:200], expected="completes")
        else:
            r.v("C05/raises-other/%s" % name, "integration completes", case, observed=repr(e.__cause__)[:200], expected="completes")
        return r
    # O1 / O2 accuracy
    T = np.asarray(a.t); Y = np.asarray(a.y, dtype=LD)
    rt, at = case.get("rtol", case["tol"]), case.get("atol", case["tol"])
    # error measured in units of the tolerance the user asked for at that state: atol + rtol*|y|
    err = max(float(np.max(np.abs(Y[k] - ex(T[k])))) / (at + rt * float(np.max(np.abs(ex(T[k]))))) for k in range(len(T))) * case["tol"]     # |y| = size of the state (max norm)
    err = err / 2.0 if "rtol" not in case else err       # (rtol = atol = tol: atol + rtol|y| = tol (1 + |y|))
    C = C_M.get(name, C_M["default"])
    eps_w = float(np.finfo(lc.DT[case.get("dtype", "float64")]).eps)
    bound = C * case["tol"] * kappa(t0, tf) * (1.0 if "rtol" in case else 0.5) + 1e3 * max(eps_w, 2.2e-16) * len(T) * case["tol"] / min(at, case["tol"])
    ratio = err / (case["tol"] * kappa(t0, tf))
    if err > bound:
        r.v("C05/accuracy/%s" % name, "error against the exact solution is bounded by a modest constant times (atol + rtol|y|) times the problem's amplification", case,
            observed=dict(err=err, bound=bound, ratio_to_tol=ratio, steps=len(T) - 1), expected="<= C_m tol kappa")
    # O3 for Richardson wrappers: the attempt that is finally recorded must be one the wrapper's controller did not reject,
    # and every attempt after a rejection is strictly smaller
    if log and log[0][0] == "verdict":
        prev = 0
        for k, upto in enumerate(calls):
            att = log[prev:upto]
            prev = upto
            if not att:
                continue
            if att[-1][2]:
                r.v("C05/rejected-step-recorded/%s" % name, "a step the controller rejects is retried, not recorded", dict(case, step=k),
                    observed=dict(attempts=[(x[1], x[2]) for x in att][:6], recorded_step=float(T[k + 1] - T[k])), expected="the recorded attempt was accepted by the controller")
                break
            mags = [abs(x[1]) for x in att]
            if any(m2 >= m1 for (m1, r1), m2 in zip([(abs(x[1]), x[2]) for x in att[:-1]], mags[1:]) if r1):
                r.v("C05/retry-not-smaller/%s" % name, "a step the controller rejects is retried with a strictly smaller step magnitude", dict(case, step=k),
                    observed=dict(attempts=[(x[1], x[2]) for x in att][:8]), expected="strictly decreasing magnitudes after a rejection")
                break
        r.add("rejections_observed", sum(1 for x in log if x[2]))
        log = []
    # O3 retry protocol: within one integrator call every retry after a controller rejection is strictly smaller, same sign, accepted |dT| <= request
    if log:
        prev = 0
        d = np.sign(tf - t0)
        for k, upto in enumerate(calls):
            att = log[prev:upto]
            prev = upto
            if not att:
                continue
            hs = [x[1] for x in att]
            if any(np.sign(h) != d for h in hs):
                r.v("C05/retry-sign/%s" % name, "every attempt has the sign of the request", dict(case, step=k), observed=hs[:8], expected="sign %d" % d)
                break
            for (h1, ok1), (h2, ok2) in zip([(x[1], x[2]) for x in att[:-1]], [(x[1], x[2]) for x in att[1:]]):
                if ok1 and not abs(h2) < abs(h1):       # the earlier attempt solved its stages, so it was rejected by the error controller
                    r.v("C05/retry-not-smaller/%s" % name, "a step the controller rejects is retried with a strictly smaller step magnitude", dict(case, step=k),
                        observed=dict(attempts=hs[:8]), expected="strictly decreasing magnitudes")
                    break
            else:
                dT = abs(float(T[k + 1] - T[k]))
                # (dT is a difference of two recorded, i.e. rounded, times: two units in the last place of the larger one)
                if dT > abs(hs[0]) * (1 + max(1e-12, 8 * eps_w)) + 2 * eps_w * max(abs(float(T[k])), abs(float(T[k + 1]))):
                    r.v("C05/accepted-longer/%s" % name, "the accepted step is not longer than the request", dict(case, step=k), observed=dict(dT=dT, request=hs[0]), expected="<=")
                    break
                continue
            break
        r.add("rejections_observed", sum(1 for k in range(len(calls)) if (calls[k] - (calls[k - 1] if k else 0)) > 1))
    r.out((name, case["problem"], int(np.sign(tf - t0)), case["tol"], min(int(np.log10(max(ratio, 1e-3))), 4), case.get("via", "ctor")))
    r.ret = ratio
    if hash(str(case)) % 97 == 0:
        r.samples.append(dict(case=case, err=err, ratio_to_tol_kappa=ratio, steps=len(T) - 1))
    return r


def giveup_case(case):
    """O4: finite-time blow-up (y' = +-y^2, singular one unit after the start): the tolerances cannot be met across the singularity ->
    FailedIntegration caused by FailedToMeetTolerances, and what is recorded is the finite, monotone prefix of accepted steps"""
    de, I = lc._imports()
    r = Res()
    name = case["method"]
    t0, tf = case["span"]
    d = 1.0 if tf > t0 else -1.0

    def f(t, y, **kw):
        return d * y * y
    y0 = np.array([1.0])
    a = de.OdeSystem(f, y0=y0, t=(t0, tf), dt=case["dt0"], rtol=case["tol"], atol=case["tol"])
    a.method = method_of(name)
    b = driver.Budget(4000)
    r.n = 1
    exc = None
    try:
        a.integrate(callback=b)
    except de.exception_types.FailedIntegration as e:
        exc = e
    if exc is not None and driver.budget_hit(exc):
        r.add("no_giveup_within_budget"); r.out(("giveup", name, "still stepping"))
        return r
    if exc is None:
        r.v("C05/giveup-missing/%s" % name, "if the tolerances cannot be met an error is raised instead of an inaccurate state being recorded", case,
            observed=dict(status=a.integration_status[:60], t_last=float(a.t[-1]), y_last=float(a.y[-1][0])), expected="FailedIntegration across the singularity at t0 +- 1")
        return r
    # 'an error is raised instead of an inaccurate state being recorded': the cause is normally FailedToMeetTolerances; a numerical error met at the
    # singularity (overflow) is an error too.  What matters is what was recorded.
    r.add("giveup_cause_" + type(exc.__cause__).__name__)
    driver.segment_invariants(r, "C05/giveup-prefix/%s" % name, case, a.t, a.y, 0, len(a) - 1, float(a.t[-1]), a.t[0], y0, np.float64)
    if a.success:
        r.v("C05/giveup-status/%s" % name, "the failure is reported", case, observed=a.integration_status[:80], expected="failure status")
    # the accepted prefix is accurate while the problem is still well conditioned (|t - t0| <= 0.9)
    T = np.asarray(a.t); Y = np.asarray(a.y, dtype=LD)
    sel = np.abs(T - t0) <= 0.9
    ex = 1 / (1 - np.abs(np.asarray(T[sel], dtype=LD) - t0))
    err = float(np.max(np.abs(Y[sel, 0] - ex) / ex)) if sel.any() else 0.0
    if err > C_M.get(name, C_M["default"]) * case["tol"] * 100.0:
        r.v("C05/giveup-prefix-accuracy/%s" % name, "the recorded prefix is accurate", case, observed=dict(rel_err=err), expected="<= C_m tol kappa (kappa = 100 up to 0.9 of the way to the singularity)")
    r.out(("giveup", name, "raised", min(len(a), 5)))
    r.samples.append(dict(case=case, rows=len(a), t_last=float(a.t[-1])))
    return r


def scales_case(case):
    """a DECOUPLED system whose components differ in size by twelve orders of magnitude: one slow mode of size 1e6 and oscillators of amplitude 1e-6.
    Because nothing couples them, the error of component i is produced by component i's local errors alone, which the controller must hold at
    (atol + rtol*|y_i|): judged per component with |y_i| = the component's amplitude over the run.  Vector and matrix layouts."""
    de, I = lc._imports()
    r = Res()
    name = case["method"]
    t0, tf = case["span"]
    w = 8.0
    big, small = 1.0e6, 1.0e-6

    def f(t, y, **kw):
        v = np.reshape(y, (-1,))
        out = np.array([-0.1 * v[0], w * v[2], -w * v[1], -0.25 * v[3]], dtype=v.dtype)
        return out.reshape(np.shape(y))

    def ex(t):
        t = LD(t) - LD(t0)
        return np.array([LD(big) * np.exp(LD(-0.1) * t), LD(small) * np.sin(LD(w) * t), LD(small) * np.cos(LD(w) * t), LD(small) * np.exp(LD(-0.25) * t)], dtype=LD)
    shape = tuple(case["shape"])
    y0 = np.asarray(ex(t0), dtype=np.float64).reshape(shape)
    rt, at = case["rtol"], case["atol"]
    a = de.OdeSystem(f, y0=y0, t=(np.float64(t0), np.float64(tf)), dt=np.float64(case["dt0"]), rtol=np.float64(rt), atol=np.float64(at))
    a.method = method_of(name)
    r.n = 1
    try:
        a.integrate(callback=driver.Budget(60000))
    except de.exception_types.FailedIntegration as e:
        if driver.budget_hit(e):
            r.add("out_of_budget"); r.out(("budget", name)); return r
        r.v("C05/raises/%s" % name, "a well-conditioned smooth problem is integrated at the requested tolerance in both directions of time", case, observed=repr(e.__cause__)[:200], expected="completes")
        return r
    T = np.asarray(a.t); Y = np.asarray(a.y, dtype=LD).reshape(len(T), -1)
    E = np.stack([ex(t) for t in T])
    span = abs(tf - t0)
    growth = float(np.exp(0.25 * span)) if tf < t0 else 1.0           # backward in time the decaying modes grow
    amp_i = np.max(np.abs(E), axis=0).astype(float)
    err_i = np.max(np.abs(Y - E), axis=0).astype(float)
    steps = len(T) - 1
    bound = SCALES_C * (at + rt * amp_i) * growth
    ratio = err_i / bound
    if np.any(ratio > 1):
        i = int(np.argmax(ratio))
        r.v("C05/component-scales/%s" % name, "error bounded by a modest constant times (atol + rtol*|y|), component by component on a decoupled system", dict(case, component=i),
            observed=dict(err=float(err_i[i]), bound=float(bound[i]), amplitude=float(amp_i[i]), steps=steps), expected="err_i <= %g (atol + rtol |y_i|)" % SCALES_C)
    r.out(("scales", name, len(shape), tf > t0, int(np.ceil(np.log10(max(ratio.max(), 1e-30))))))
    r.ret = float(ratio.max())
    return r


SCALES_C = 500.0      # frozen (observed on the unchanged tree: <= 1e2; a controller that weighs components against each other is off by 1e4..1e6)


def run_case(case):
    if case["section"] == "scales":
        return scales_case(case)
    return giveup_case(case) if case["section"] == "giveup" else accuracy_case(case)


def run(ctx):
    tols = [1e-3, 1e-5, 1e-7, 1e-9] + ([] if ctx.quick else [1e-11])
    cases = []
    skipped = 0
    for m in PAIRS + RICH:
        for prob in ("rotation", "damped", "logistic", "rational", "ycos"):
            for (t0, tf) in ((0.0, 2.0), (2.0, 0.0)) + (() if ctx.quick else ((-1.0, 1.0), (1.0, -1.0))):
                for tol in tols:
                    for dt0 in ((1e-2, 5.0) if ctx.quick else (1e-4, 1e-2, 1.0, 5.0)):
                        if m in SPLIT_RICH and prob != "rotation":
                            continue
                        order = {"HeunEulerSolver": 2, "RICH:EulerSolver:3": 2, "RICH:SymplecticEulerSolver:3": 2, "RICH:MidpointSolver:3": 3, "RICH:ImplicitMidpoint:3": 3, "LobattoIIIC4": 4}.get(m, 5)
                        est_steps = 2.0 / (tol ** (1.0 / order))
                        if est_steps > 2e4 or (ctx.quick and est_steps > 3000) or (m.startswith("RICH") and est_steps > 600) or (m in ("RadauIIA19",) and tol < 1e-7 and ctx.quick):
                            skipped += 1
                            continue
                        if m == "RICH:ImplicitMidpoint:3" and (tol < 1e-5 if ctx.quick else tol < 1e-7):
                            skipped += 1
                            continue
                        if ctx.quick and m in ("LobattoIIIC4", "RadauIIA5", "RadauIIA19", "RICH:ImplicitMidpoint:3") and (prob not in ("rotation", "logistic") or tol < 1e-7):
                            skipped += 1
                            continue
                        cases.append(dict(section="acc", method=m, problem=prob, span=[t0, tf], tol=tol, dt0=dt0))
    # long spans ('initial dt ... larger than the span' on a span of 20 is a first trial step of 10, far outside the region where the error estimate means
    # anything: every retry must still be judged on its own), and runs made in two calls with a nearby first target
    for m in PAIRS + RICH[:2]:
        for (t0, tf) in ((0.0, 20.0), (20.0, 0.0), (-10.0, 10.0)):
            for tol in (1e-5, 1e-8):
                for dt0, hops in ((10.0, []), (50.0, []), (0.01, [t0 + 0.005 * (1 if tf > t0 else -1)]), (1.0, [t0 + 0.25 * (1 if tf > t0 else -1)])):
                    order = {"HeunEulerSolver": 2, "RICH:EulerSolver:3": 2, "RICH:SymplecticEulerSolver:3": 2, "RICH:MidpointSolver:3": 3, "LobattoIIIC4": 4}.get(m, 5)
                    est_steps = 20.0 / (tol ** (1.0 / order))
                    if est_steps > 2e4 or (ctx.quick and est_steps > 3000) or (m.startswith("RICH") and est_steps > 600) or m in ("RadauIIA19", "RadauIIA5", "LobattoIIIC4"):
                        continue
                    if ctx.quick and (t0, tf) == (-10.0, 10.0):
                        continue
                    cases.append(dict(section="acc", method=m, problem="rotation", span=[t0, tf], tol=tol, dt0=dt0, hops=hops))
    # the tolerances set through the system's setters (before the method, after it, after a loose run and a reset) instead of the constructor
    for m in PAIRS + RICH:
        for (t0, tf) in ((0.0, 2.0), (2.0, 0.0)):
            for via in ("before", "after", "rerun"):
                tol = 1e-5 if m in ("HeunEulerSolver", "RICH:EulerSolver:3", "RICH:SymplecticEulerSolver:3", "RICH:ImplicitMidpoint:3") else 1e-7
                if ctx.quick and m in ("RadauIIA19",):
                    continue
                cases.append(dict(section="acc", method=m, problem="rotation", span=[t0, tf], tol=tol, dt0=1e-2, via=via))
    # stiff linear decay (what the implicit pairs are for): real and oscillatory eigenvalues of size 1e2 .. 1e6, spans of 10 time units from 0 in both directions
    for m in ("RadauIIA5", "LobattoIIIC4") + (() if ctx.quick else ("RadauIIA19",)):
        for lam in ((-1e2, 0.0), (-1e4, 0.0), (-1e6, 0.0), (-10.0, 5.0), (-2e5, 1e5)):
            for tf in (10.0, -10.0):
                for dt0 in (1.0, 1e-3):
                    cases.append(dict(section="acc", method=m, problem="stiff:%g:%g" % lam, span=[0.0, tf], tol=1e-6, rtol=1e-6, atol=1e-9, dt0=dt0, jac=False))
    # unequal tolerances on solutions far from unit size (the controller must weigh atol and rtol as documented: atol + rtol*|y|)
    for m in PAIRS + RICH[:3]:
        for prob in ("rotation", "damped"):
            for (t0, tf) in ((0.0, 2.0), (2.0, 0.0)):
                for amp, rt, at in ((1e-4, 1e-5, 1e-12), (1e4, 1e-10, 1e-4), (1e-3, 1e-6, 1e-3), (1e3, 1e-3, 1e-9)):
                    if m in ("HeunEulerSolver", "RICH:EulerSolver:3", "RICH:MidpointSolver:3") and min(rt, at / amp) < 1e-7:
                        continue
                    if ctx.quick and m in ("RadauIIA19", "LobattoIIIC4") and prob == "damped":
                        continue
                    cases.append(dict(section="acc", method=m, problem=prob, span=[t0, tf], tol=rt, rtol=rt, atol=at, amp=amp, dt0=0.1))
    # other precisions (the controller's constants and the retry protocol must not depend on the width of the float)
    for m in ("RK45CKSolver", "DOPRI45", "RK8713MSolver", "RadauIIA5", "RICH:RK4Solver:3"):
        for prob in ("rotation", "logistic"):
            for (t0, tf) in ((0.0, 2.0), (2.0, 0.0)):
                for dn, tl in (("float32", (1e-3, 1e-4)), ("longdouble", (1e-9, 1e-12))):
                    for tol in tl:
                        if m in ("RICH:RK4Solver:3", "RadauIIA5") and tol < 1e-9:
                            continue
                        for dt0 in (1e-2, 5.0):
                            if ctx.quick and m in ("RadauIIA5", "RICH:RK4Solver:3") and (prob != "rotation" or dt0 != 5.0):
                                continue
                            cases.append(dict(section="acc", method=m, problem=prob, span=[t0, tf], tol=tol, dt0=dt0, dtype=dn))
    # components of very different size in one state (decoupled, judged per component)
    # (explicit pairs and a Richardson wrapper of an explicit base: their only error source is the local truncation error, which the controller weighs per
    #  component.  Implicit pairs also solve their stage equations to a NORM-wise tolerance, 0.5*max(atol + rtol*|y|_inf) - all C02 grants them - so for them
    #  only the norm-wise bound of the accuracy cells is demanded; observed on this system: 2e3 .. 7e3 (atol + rtol |y_i|) in the small components.)
    for m in [x for x in PAIRS if x not in ("LobattoIIIC4", "RadauIIA5", "RadauIIA19")] + RICH[2:3]:
        if m in ("HeunEulerSolver",):
            continue            # second order: 1e-6 relative needs > 2e4 steps here
        for span in ([0.0, 3.0], [3.0, 0.0]):
            for (rt, at) in ((1e-6, 1e-18), (1e-8, 1e-20)):
                if m in ("RICH:RK4Solver:3",) and rt < 1e-6:
                    continue
                for shape in ([4], [2, 2]):
                    cases.append(dict(section="scales", method=m, span=span, rtol=rt, atol=at, tol=rt, dt0=0.05, shape=shape))
    for m in PAIRS + RICH[:3]:
        for span in ([0.0, 2.0], [0.0, -2.0], [-3.0, -1.0], [3.0, 1.0]):
            for tol in (1e-6, 1e-9):
                if m in ("HeunEulerSolver", "RICH:EulerSolver:3") and tol < 1e-6:
                    continue
                cases.append(dict(section="giveup", method=m, span=span, tol=tol, dt0=0.1))
    ctx.rule = ("full product 9 embedded pairs + 4 Richardson(k=3) wrappers x 5 problems with closed forms (rotation, non-normal damped 2x2, logistic, y'=-y^2, y'=y cos t) x both directions "
                "x tolerance ladder %s x initial dt from 1e-4 to larger than the span; every attempt of every integrator call is logged through the real step (retry protocol, exact); "
                "cells predicted to need > 2e4 steps are declared out of bound (%d); distinct = distinct (method, problem, direction, tol, decade of error/tol) classes" % (tols, skipped))
    ctx.assumptions += ["accuracy constants C_m are a frozen table (1e3 / 1e4); this clause catches gross failures (a broken controller is off by 1e3..1e8), the retry protocol clause is exact",
                        "kappa = amplification bound of the problem over the span (from the variational equation)",
                        "a retry is judged 'after a controller rejection' when the preceding attempt solved its stage equations (explicit methods: always)"]
    rets = grid.pmap(run_case, cases, ctx, horizon=900, collect=True)
    worst = {}; worst_sc = {}
    for c, rt in zip(cases, rets):
        if rt is not None and c["section"] == "acc":
            worst[c["method"]] = max(worst.get(c["method"], 0.0), float(rt))
        if rt is not None and c["section"] == "scales":
            worst_sc[c["method"]] = max(worst_sc.get(c["method"], 0.0), float(rt))
    ctx.note("observed", worst_error_over_tol_kappa={k: round(v, 2) for k, v in sorted(worst.items())}, cells_out_of_bound=skipped,
             worst_component_ratio_scales={k: round(v, 4) for k, v in sorted(worst_sc.items())})


def replay(case):
    case = {k: v for k, v in case.items() if k != "step"}
    return run_case(case)
