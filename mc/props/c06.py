"""C06 — dense output is a consistent continuous extension of the computed trajectory (E1 over histories)."""
import numpy as np

from mc.core.ctx import Res
from mc.core import explore, grid
from mc.ref import driver
from mc.props import loopcommon as lc

LEVEL = "model_checking"
LD = np.longdouble
METHODS = ["RK4Solver", "RK45CKSolver", "DOPRI45", "RK1412Solver", "ABAs5o6HSolver", "SymplecticEulerSolver", "BackwardEuler", "GaussLegendre4", "RadauIIA5", "RICH:RK4Solver:3", "RICH:EulerSolver:4"]
SPANS = [(0.0, 2.0), (0.0, -2.0), (1.0, -1.0), (-3.0, -1.0), (3.0, 1.5)]


class Boom(Exception):
    pass


def method_of(name):
    de, I = lc._imports()
    if name.startswith("RICH:"):
        _, base, k = name.split(":")
        return I.generate_richardson_integrator(lc.by_name(base), int(k))
    return lc.by_name(name)


def f_osc(t, y, **kw):
    return np.array([y[1], -y[0]], dtype=y.dtype)


def exact(t, t0, y0):
    """rotation: y(t) = R(t - t0) y0"""
    c, s = np.cos(LD(t) - LD(t0)), np.sin(LD(t) - LD(t0))
    return np.array([c * y0[0] + s * y0[1], -s * y0[0] + c * y0[1]], dtype=LD)


def fresh(cfg):
    de, I = lc._imports()
    dtype = lc.DT[cfg["dtype"]]
    t0, tf = cfg["span"]
    y0 = np.array([np.sin(t0), np.cos(t0)], dtype=dtype)
    tf_cfg = (2 * t0 - tf) if cfg.get("against") else tf        # 'against': configured with the mirrored span, every integrate call names its target
    buf = y0.copy()         # the caller reuses its buffer after construction
    a = de.OdeSystem(f_osc, y0=buf, t=(dtype(t0), dtype(tf_cfg)), dt=dtype(cfg["dt0"]), rtol=dtype(cfg["tol"]), atol=dtype(cfg["tol"]), dense_output=True)
    buf[...] = dtype(77.0)
    a.method = method_of(cfg["method"])
    return a, y0, dtype


def make_event(cfg):
    t0, tf = cfg["span"]
    d = 1.0 if tf > t0 else -1.0
    # first crossing of y[0] = sin(t) with level c along the direction of travel, about 0.6 after the start
    level = float(np.sin(t0 + d * 0.6))

    def ev(t, y, **kw):
        return y[0] - level
    ev.is_terminal = True
    return ev, t0 + d * 0.6


def ops_fn(cfg, hist):
    ops = [("int",), ("intT", 0.5), ("ev",), ("fault", 2), ("faultev", 9), ("faultev", 1)]
    if any(o[0] == "ev" for o in hist):
        ops = [o for o in ops if o[0] != "ev"]
    if any(o[0] in ("fault", "faultev") for o in hist):
        ops = [o for o in ops if o[0] not in ("fault", "faultev")]
    if any(o[0] == "intT" for o in hist):
        ops = [o for o in ops if o[0] != "intT"]
    # between runs: reset() (the next run starts a new dense output from (t0, y0)), and a tolerance set to its own value (the integrator is rebuilt)
    if hist and hist[-1][0] not in ("reset", "settol") and not any(o[0] == "reset" for o in hist):
        ops = ops + [("reset",)]
    if hist and hist[-1][0] not in ("reset", "settol") and not any(o[0] == "settol" for o in hist):
        ops = ops + [("settol",)]
    return ops


def apply_op(a, cfg, op, dtype):
    de, I = lc._imports()
    t0, tf = cfg["span"]
    b = driver.Budget(20000)
    obs = dict(op=list(op), raised=None, i0=len(a) - 1)
    try:
        if op[0] == "int":
            a.integrate(dtype(tf), callback=b)
        elif op[0] == "intT":
            tgt = t0 + op[1] * (tf - t0)
            if (tgt - float(a.t[-1])) * (tf - t0) <= 0:
                obs["disabled"] = True          # not ahead of the current time: would be a reversal (excluded from C06)
                return obs
            a.integrate(dtype(tgt), callback=b)
        elif op[0] == "reset":
            a.reset()
        elif op[0] == "settol":
            a.rtol = a.rtol
        elif op[0] == "ev":
            ev, _ = make_event(cfg)
            a.integrate(dtype(tf), events=[ev], callback=b)
        elif op[0] == "fault":
            st = dict(n=0)

            def cb(s):
                st["n"] += 1
                if st["n"] == op[1]:
                    raise Boom()
            a.integrate(dtype(tf), callback=[cb, b])
        elif op[0] == "faultev":
            # 'after failures': the fault comes from an event function, i.e. after the integrator has completed a trial step that the system then discards
            st = dict(n=0)

            def gev(t, y, **kw):
                st["n"] += 1
                if st["n"] == op[1]:
                    raise Boom()
                return np.asarray(y[0] - 7.0)      # never crosses: |y| <= 1
            a.integrate(dtype(tf), events=[gev], callback=b)
    except de.exception_types.FailedIntegration as e:
        obs["raised"] = "budget" if driver.budget_hit(e) else ("boom" if isinstance(e.__cause__, Boom) else repr(e.__cause__)[:160])
    obs["i1"] = len(a) - 1
    return obs


def consts_case(case):
    """'after continued calls': the right-hand side reads a constant of the system (the frequency w of a rotation) that the caller changes between two calls -
    by assigning a new dictionary or by changing the entry in place.  The first piece of the second call starts at the recorded state with the slope of the
    right-hand side as it is NOW, and between its grid points it follows the solution of the new problem."""
    de, I = lc._imports()
    r = Res()
    dtype = lc.DT[case["dtype"]]
    t0, tf = case["span"]
    name = case["method"]

    def f(t, y, w=1.0, **kw):
        return w * np.array([y[1], -y[0]], dtype=y.dtype)
    y0 = np.array([np.sin(t0), np.cos(t0)], dtype=dtype)
    consts = dict(w=1.0)
    a = de.OdeSystem(f, y0=y0.copy(), t=(dtype(t0), dtype(tf)), dt=dtype(case["dt0"]), rtol=dtype(case["tol"]), atol=dtype(case["tol"]), dense_output=True, constants=consts)
    a.method = method_of(name)
    mid = t0 + 0.5 * (tf - t0)
    r.n = 1
    try:
        a.integrate(dtype(mid), callback=driver.Budget(20000))
        n1 = len(a)
        if case["how"] == "assign":
            a.constants = dict(w=2.0)
        else:
            a.constants["w"] = 2.0
        a.integrate(dtype(tf), callback=driver.Budget(20000))
    except de.exception_types.FailedIntegration as e:
        r.add("raised"); r.out(("consts", name, "raised"))
        return r
    T = np.asarray(a.t); Y = np.asarray(a.y, dtype=LD)
    k = n1 - 1                                       # the junction row
    pieces = [p for p in a.sol.y_interpolants if abs(float(p.t0) - float(T[k])) <= 64 * driver.eps_of(dtype) * max(1.0, abs(float(T[k])))
              and (float(p.t1) - float(p.t0)) * (tf - t0) > 0]
    if not pieces:
        r.v("C06/consts/anchor/%s" % name, "every recorded step has its own piece", case, observed=dict(junction=float(T[k])), expected="a piece starting at the junction")
        return r
    p = pieces[0]
    f_new = 2.0 * np.array([Y[k][1], -Y[k][0]], dtype=LD)
    e = driver.eps_of(dtype)
    if np.max(np.abs(np.asarray(p.m0, dtype=LD) - f_new)) > 256 * e * 4:
        r.v("C06/consts/end-slopes/%s" % name, "piece end slopes equal the right-hand side at the recorded states (the right-hand side in force when the step is taken)", case,
            observed=dict(m0=np.asarray(p.m0, dtype=float), f_now=f_new.astype(float), f_before=(0.5 * f_new).astype(float)), expected="slope of the current right-hand side")
    else:
        # inside the first step of the second call: rotation at the new rate from the junction state
        h = float(p.t1) - float(p.t0)
        ang1 = 2.0 * (LD(p.t1) - LD(T[k]))
        Eg1 = float(np.max(np.abs(np.asarray(p.p1, dtype=LD) - np.array([np.cos(ang1) * Y[k][0] + np.sin(ang1) * Y[k][1], -np.sin(ang1) * Y[k][0] + np.cos(ang1) * Y[k][1]], dtype=LD))))
        for fr in (0.25, 0.5, 0.75):
            q = p.t0 + (p.t1 - p.t0) * dtype(fr)
            ang = 2.0 * (LD(q) - LD(T[k]))
            want = np.array([np.cos(ang) * Y[k][0] + np.sin(ang) * Y[k][1], -np.sin(ang) * Y[k][0] + np.cos(ang) * Y[k][1]], dtype=LD)
            err = float(np.max(np.abs(np.asarray(a.sol(q), dtype=LD) - want)))
            # Hermite remainder for the rate-2 rotation plus the integrator's own error over this step (a fixed-step method of low order takes a long step here)
            bound = 4 * ((2 * abs(h)) ** 4 / 384 * 1.05 + 2 * (1 + 2 * abs(h)) * Eg1 + 64 * e)
            if err > bound:
                r.v("C06/consts/accuracy/%s" % name, "interpolation error between grid points is O(h^4) on top of the integrator's error", dict(case, frac=fr), observed=dict(err=err, bound=bound, h=h), expected="<= bound")
                break
    r.out(("consts", name, case["how"], tf > t0))
    return r


def step(cfg, hist):
    r = Res()
    a, y0, dtype = fresh(cfg)
    name = cfg["method"]
    case = dict(cfg, hist=[list(o) for o in hist])
    obs = None
    for op in hist:
        obs = apply_op(a, cfg, op, dtype)
        if obs.get("disabled"):
            r.ret = None
            return r
        if obs["raised"] not in (None, "boom"):
            break
        if cfg.get("observe") and a.sol is not None and len(a) > 1:
            # an observer looks at the dense output between the calls (array-valued queries build internal caches)
            a.sol(np.asarray(a.t)); a.sol(a.t[-1]); a.sol.grad(a.t[0] + (a.t[-1] - a.t[0]) * dtype(0.5))
    r.n = 1
    if obs is not None and obs["raised"] not in (None, "boom"):
        if obs["raised"] == "budget":
            r.v("C06/runaway/%s" % name, "integration terminates", case, observed=dict(rows=len(a)), expected="terminates")
        else:
            r.add("raised"); r.out(("raised", name))
        r.ret = None
        return r
    rich = name.startswith("RICH:")
    ok = driver.dense_invariants(r, "C06", case, a, f_osc, dtype, richardson=rich, rtol_rich=50 * cfg["tol"])
    for v in r.viol:
        if v["key"].count("/") == 1:
            v["key"] = v["key"] + "/" + name
    if ok and len(a) > 1:
        # accuracy between grid points: Hermite remainder h^4/384 max|y''''| on top of the integrator's own error at the grid
        T = np.asarray(a.t); Y = np.asarray(a.y, dtype=LD)
        t0 = cfg["span"][0]
        y0l = np.array([np.sin(LD(t0)), np.cos(LD(t0))], dtype=LD)
        Eg = max(float(np.max(np.abs(Y[k] - exact(T[k], t0, y0l)))) for k in range(len(T)))
        worst = 0.0
        for k in range(len(T) - 1):
            h = abs(float(T[k + 1] - T[k]))
            bound = 4 * (h ** 4 / 384 * 1.05 + 2 * (1 + h) * Eg + 64 * driver.eps_of(dtype)) + (50 * cfg["tol"] if rich else 0.0)
            for fr in (0.3, 0.5, 0.8):
                q = T[k] + (T[k + 1] - T[k]) * dtype(fr)
                err = float(np.max(np.abs(np.asarray(a.sol(q), dtype=LD) - exact(q, t0, y0l))))
                worst = max(worst, err / bound)
                if err > bound:
                    r.v("C06/accuracy/%s" % name, "interpolation error between grid points is O(h^4) on top of the integrator's error", dict(case, step=k, frac=fr),
                        observed=dict(err=err, bound=bound, h=h, grid_error=Eg), expected="<= bound")
                    break
            else:
                continue
            break
        # system[q] with dense output returns sol(q)
        q = T[0] + (T[-1] - T[0]) * dtype(0.37)
        got = a[q]
        if not np.array_equal(np.asarray(got.y), np.asarray(a.sol(q))):
            r.v("C06/getitem/%s" % name, "system[t] returns the dense solution", case, observed=np.asarray(got.y, dtype=float), expected=np.asarray(a.sol(q), dtype=float))
    d = 1 if cfg["span"][1] > cfg["span"][0] else -1
    r.out(("state", name, d, tuple(o[0] for o in hist), min(len(a), 6)))
    r.ret = driver.canon(a)
    if len(hist) == 2 and hash(str(case)) % 29 == 0:
        r.samples.append(dict(config=cfg, history=[list(o) for o in hist], rows=len(a), pieces=len(a.sol.y_interpolants) if a.sol is not None else None))
    return r


def configs(ctx):
    out = []
    for m in METHODS:
        for sp in SPANS:
            for dt0 in ((0.25,) if ctx.quick else (0.25, 0.125, 1.0)):
                dts = ("float64",) if (ctx.quick or m.startswith("RICH") or m in ("RK1412Solver",)) else ("float64", "longdouble", "float32")
                for dn in dts:
                    tol = 1e-6 if dn != "float32" else 1e-4
                    if m == "RadauIIA5":
                        tol = 1e-4          # stiffly accurate implicit pair: keeps the runs short; its stage slopes are solved only to this tolerance
                        if dn != "float64":
                            continue
                    out.append(dict(method=m, span=list(sp), dt0=dt0, dtype=dn, tol=tol))
                    out.append(dict(method=m, span=list(sp), dt0=dt0, dtype=dn, tol=tol, observe=True))
                    if m in ("RK4Solver", "RK45CKSolver", "ABAs5o6HSolver", "BackwardEuler"):
                        out.append(dict(method=m, span=list(sp), dt0=dt0, dtype=dn, tol=tol, observe=True, against=True))
        # beside the convenient values: a step that is not a dyadic fraction, spans far from the origin of the time axis
        if m in ("RK4Solver", "RK45CKSolver", "ABAs5o6HSolver", "BackwardEuler", "RICH:RK4Solver:3"):
            for sp in ((1000.0, 1002.0), (-1000.0, -1002.0), (0.0, 2.0), (1.0, -1.0)):
                for dn in (("float64",) if m.startswith("RICH") else ("float64", "float32")):
                    out.append(dict(method=m, span=list(sp), dt0=0.1, dtype=dn, tol=1e-6 if dn != "float32" else 1e-4, observe=True))
    return out


def shape_case(case):
    """dense output of states of every rank (scalar, (1,), matrix, rank 3).  y' = C (a constant array): every method integrates it exactly and a cubic
    Hermite piece reproduces a linear function exactly, so sol(q) = y0 + C (q - t0) to rounding for every q in the range, for scalar and array queries;
    a scalar query returns the shape of y0, an array of n queries returns (n, *shape)."""
    de, I = lc._imports()
    r = Res()
    dtype = lc.DT[case["dtype"]]
    shape = tuple(case["shape"])
    n = int(np.prod(shape)) if shape else 1
    C = (np.arange(1, n + 1, dtype=np.float64).reshape(shape) / 4.0 - 0.75).astype(dtype) if shape else dtype(0.5)
    y0 = (np.arange(n, dtype=np.float64).reshape(shape) / 8.0 - 0.25).astype(dtype) if shape else dtype(-0.25)

    def f(t, y, **kw):
        return np.asarray(C, dtype=y.dtype) + 0 * y
    t0, tf = case["span"]
    name = case["method"]
    a = de.OdeSystem(f, y0=y0, t=(dtype(t0), dtype(tf)), dt=dtype(case["dt0"]), rtol=dtype(1e-6), atol=dtype(1e-6), dense_output=True)
    a.method = method_of(name)
    r.n = 1
    try:
        a.integrate(dtype(t0 + 0.4375 * (tf - t0)), callback=driver.Budget(5000))
        a.integrate(callback=driver.Budget(5000))
    except de.exception_types.FailedIntegration:
        r.add("raised")
        return r
    T = np.asarray(a.t)
    qs = [T[k] + (T[k + 1] - T[k]) * dtype(fr) for k in range(len(T) - 1) for fr in (0.0, 0.3, 0.75)] + [T[-1]]
    e = max(driver.eps_of(dtype), 2.0 ** -52)
    rich = name.startswith("RICH")
    tol = (64 * e * (len(T) + 4) * 8 + (1e-5 if (lc.family(name).startswith("implicit") or rich) else 0)) * (1.0 + max(abs(t0), abs(tf)) * (1.0 if abs(t0) > 100 else 0.0))

    def want(q):
        return np.asarray(y0, dtype=LD) + (LD(q) - LD(dtype(t0))) * np.asarray(C, dtype=LD)
    key = "C06/shape/%s" % name
    for q in qs:
        got = np.asarray(a.sol(q))
        r.n += 1
        if got.shape != shape:
            r.v(key + "/scalar-query-shape", "a scalar query returns a state of the shape of y0", dict(case, q=float(q)), observed=list(got.shape), expected=list(shape))
            return r
        if float(np.max(np.abs(np.asarray(got, dtype=LD) - want(q)))) > tol:
            r.v(key + "/value", "every query inside the range is answered by the interpolant of the step that contains it (exact for y' = const)", dict(case, q=float(q)),
                observed=dict(err=float(np.max(np.abs(np.asarray(got, dtype=LD) - want(q))))), expected="<= %.3g" % tol)
            return r
    Q = np.asarray(qs, dtype=dtype)
    got = np.asarray(a.sol(Q))
    if got.shape != (len(Q),) + shape:
        r.v(key + "/array-query-shape", "an array of n queries returns n states", case, observed=list(got.shape), expected=[len(Q)] + list(shape))
        return r
    W = np.stack([want(q) for q in qs])
    if float(np.max(np.abs(np.asarray(got, dtype=LD) - W))) > tol:
        r.v(key + "/array-value", "array queries agree with scalar queries and the exact solution", case,
            observed=dict(err=float(np.max(np.abs(np.asarray(got, dtype=LD) - W)))), expected="<= %.3g" % tol)
    r.out(("shape", name, case["dtype"], len(shape), t0 < tf))
    return r


def run(ctx):
    depth = 3
    ctx.rule = ("E1 breadth-first search to depth %d over histories of {integrate(), integrate(mid), integrate(terminal event), faulting integrate (callback raises at its 2nd step)} "
                "with dense output on, from 11 methods (incl. a stiffly accurate implicit pair and two Richardson wrappers) x 5 signed spans (forward, backward, through zero, negative times) x dtypes x {no observer, an observer issuing array / scalar / grad queries between the calls}; "
                "after every transition all dense-output invariants are evaluated on the real object (anchoring of one piece per step, end values, end slopes = f, "
                "lookup by the containing piece for 3 interior points per step incl. grad and array queries, accuracy against the closed form); "
                "distinct = distinct (method, direction, op-name history, #rows) classes" % depth)
    ctx.assumptions += ["direction reversal is excluded (overlapping trajectories make 'the containing step' ambiguous)",
                        "rounding-level threshold 16*eps*scale; accuracy bound 4*(h^4/384*max|y''''| + 2(1+h)*E_grid) with E_grid the observed error at the grid points",
                        "Richardson wrappers: recorded states reproduced within 50*tol (their pieces come from sub-steps)"]
    if not ctx.only or "bfs" in ctx.only:
        explore.bfs(ctx, configs(ctx), ops_fn, step, depth, section="bfs", horizon=300)
    if not ctx.only or "consts" in ctx.only:
        ccases = [dict(consts=True, method=m, span=list(sp), dt0=0.125, tol=1e-8, dtype="float64", how=how)
                  for m in ("RK4Solver", "RK45CKSolver", "DOPRI45", "ImplicitMidpoint", "ABAs5o6HSolver", "RK8713MSolver") + (() if ctx.quick else ("RadauIIA5", "RICH:RK4Solver:3"))
                  for sp in ((0.0, 2.0), (1.0, -1.0)) for how in ("assign", "in-place")]
        grid.pmap(consts_case, ccases, ctx, section="consts", horizon=300)
    if not ctx.only or "shape" in ctx.only:
        scases = []
        for m in ["RK4Solver", "RK45CKSolver", "ABAs5o6HSolver", "ImplicitMidpoint", "RICH:RK4Solver:3"] + ([] if ctx.quick else ["DOPRI45", "RadauIIA5", "BackwardEuler", "RK8713MSolver"]):
            for shape in ([], [1], [2, 3], [2, 1, 2]):
                if shape == [] and m == "ABAs5o6HSolver":
                    continue
                for span in ([0.0, 2.0], [1.0, -1.0], [-1000.0, -1002.0]):
                    for dn in ("float64", "float32") if ctx.quick else ("float64", "float32", "longdouble"):
                        if m.startswith("RICH") and dn != "float64":
                            continue
                        for dt0 in (0.25, 0.1):
                            scases.append(dict(method=m, shape=shape, span=span, dtype=dn, dt0=dt0))
        grid.pmap(shape_case, scases, ctx, section="shape", horizon=300)


def replay(case):
    if case.get("consts"):
        return consts_case({k: v for k, v in case.items() if k not in ("frac",)})
    if "shape" in case:
        return shape_case({k: v for k, v in case.items() if k != "q"})
    cfg = {k: v for k, v in case.items() if k not in ("hist", "step", "frac", "row", "_depth")}
    return step(cfg, tuple(tuple(o) for o in case["hist"]))
