"""C07 — reported events are genuine, correctly located, ordered and unique."""
import numpy as np

from mc.core.ctx import Res
from mc.core import grid
from mc.ref import driver
from mc.props import evcommon as ec

LEVEL = "exploration"
LD = np.longdouble


def check_case(case):
    r = Res()
    prob0 = ec.problem(case["problem"], case["span"][0])
    evs = [ec.make_event(sp, prob0) for sp in case["events"]]
    a, prob, dtype, raised = ec.run_system(case, evs)
    r.n = 1
    name = case["method"]
    if raised:
        if raised == "budget":
            r.v("C07/runaway/%s" % name, "integration with events terminates", case, observed=dict(rows=len(a)), expected="terminates")
        else:
            r.add("raised"); r.out(("raised", name, raised[:40]))
        return r
    e = driver.eps_of(dtype)
    t0, tf = case["span"]
    d = 1.0 if tf > t0 else -1.0
    k0 = int(getattr(a, "_verif_skip", 0))          # rows of a first leg without events (round-trip cells): not judged
    T = [float(x) for x in a.t][k0:]
    Eg = ec.grid_error(a, prob)
    hmax = max(abs(T[k + 1] - T[k]) for k in range(len(T) - 1)) if len(T) > 1 else 0.0
    matched = {}
    last = None
    ev0 = int(getattr(a, "_verif_skip_events", 0))
    for idx, st in enumerate(a.events[ev0:]):
        te = float(st.t)
        g = st.event
        sp = g.spec
        j = evs.index(g)
        cs = dict(case, event_index=j, tuple_index=idx)
        tsc = max(1.0, abs(te))
        # (c) inside a recorded step
        k = ec.containing_step(T, te, d, 8 * e * tsc)
        if k is None:
            r.v("C07/outside-step/%s" % name, "event time lies inside the step in which it was found", cs, observed=dict(t_e=te, grid=T[:8]), expected="t_k <= t_e <= t_k+1 for some k")
            continue
        # (a) y_e is the dense solution at t_e
        ye = np.asarray(st.y, dtype=LD)
        if case["dense"]:
            ref = np.asarray(a.sol(st.t), dtype=LD); dref = np.asarray(a.sol.grad(st.t), dtype=LD)
        else:
            H = ec.hermite_from_rows(a, prob, k + k0, dtype)
            ref = np.asarray(H(st.t), dtype=LD); dref = np.asarray(H.grad(st.t), dtype=LD)
        ysc = max(1.0, float(np.max(np.abs(ref))))
        if ye.shape != ref.shape or float(np.max(np.abs(ye - ref))) > 64 * e * ysc:
            r.v("C07/state-not-dense/%s" % name, "y_e equals the dense solution at t_e", cs, observed=dict(y_e=ye.astype(float), sol=ref.astype(float)), expected="equal at rounding level")
            continue
        # (b) g(t_e, y_e) ~ 0, relative to the scale of g
        if sp["kind"] == "dstate":
            gv = float(np.reshape(g(st.t, st.y, np.asarray(dref, dtype=dtype)), ()))
        else:
            gv = float(np.reshape(g(st.t, st.y), ()))
        s = abs(sp["s"])
        gd_max = {"time": 1.0, "double": 2 * (abs(te) + abs(sp["tau"]) + abs(sp.get("tau2", 0.0))), "state": 1.05, "dstate": 1.05}[sp["kind"]]
        level_sc = {"time": abs(te) + abs(sp["tau"]), "double": (abs(te) + abs(sp["tau"])) * (abs(te) + abs(sp.get("tau2", 0.0))) + 1, "state": 2.0 * ysc, "dstate": 2.0 * ysc}[sp["kind"]]
        gb = s * (64 * e * (level_sc + 1.0) + gd_max * 64 * e * tsc)
        # the root finder's documented residual tolerance is absolute (4*D.epsilon = 16 eps): a point with |g| below it is 'zero to within the
        # tolerance' (C14); for tiny scales the residual clause is then vacuous and the location clause below carries the claim
        gb = max(gb, 16 * e)
        if abs(gv) > gb:
            r.v("C07/residual/%s" % name, "g(t_e, y_e) ~ 0", cs, observed=dict(g=gv, bound=gb, t_e=te), expected="|g| <= bound")
            continue
        # (d) near a true root of g along the exact trajectory; (e) crossing direction compatible
        roots = ec.exact_roots(sp, prob, t0, tf)
        if not roots:
            r.v("C07/spurious/%s" % name, "event is within tolerance of a true root along the exact trajectory", cs, observed=dict(t_e=te), expected="no exact root in the span")
            continue
        rt = min(roots, key=lambda x: abs(x - te))
        _, gd = ec.g_exact(sp, prob, rt)
        gdn = abs(float(gd)) / s
        if sp["kind"] == "dstate":
            Ei = 0.01 * hmax ** 3 + 3 * Eg / max(hmax, 1e-3) + Eg
        elif prob.name == "osc" and sp["kind"] == "state":
            Ei = hmax ** 4 / 384 * 1.05 + 2 * Eg
        else:
            Ei = 2 * Eg if sp["kind"] == "state" else 0.0
        if gdn >= 0.05:
            lb = 8 * Ei / gdn + 64 * e * tsc
            if abs(te - rt) > lb:
                r.v("C07/location/%s" % name, "event time is within tolerance of a true root", cs, observed=dict(t_e=te, root=rt, err=abs(te - rt), bound=lb, grid_error=Eg), expected="|t_e - t*| <= bound")
                continue
            want = sp.get("dir", 0)
            # direction of the crossing of the COMPUTED trajectory (g shortly before / after t_e along the direction of travel) ...
            hk = abs(T[k + 1] - T[k])
            dlt = dtype(1e-4 * hk)
            interp = a.sol if case["dense"] else H

            def g_on(tq):
                if sp["kind"] == "dstate":
                    return float(np.reshape(g(tq, interp(tq), interp.grad(tq)), ()))
                return float(np.reshape(g(tq, interp(tq)), ()))
            gb_, ga_ = g_on(st.t - dtype(d) * dlt), g_on(st.t + dtype(d) * dlt)
            if want != 0 and (ga_ - gb_) * want < 0 and abs(ga_ - gb_) > 64 * e * s * (level_sc + 1):
                r.v("C07/direction/%s" % name, "crossing direction is compatible with the requested direction", cs,
                    observed=dict(t_e=te, g_before=gb_, g_after=ga_, travel=d, requested=want), expected="g changes in the requested direction along the direction of integration")
                continue
            # ... and of the exact trajectory, when the event is located sharply enough to identify the root
            if want != 0 and lb <= 1e-3 and np.sign(float(gd)) * d * want < 0:
                r.v("C07/direction-exact/%s" % name, "crossing direction (exact trajectory) is compatible with the requested direction", cs,
                    observed=dict(t_e=te, gdot=float(gd), travel=d, requested=want), expected="sign(gdot * travel) == requested")
                continue
            key = (j, rt)
            if key in matched and lb <= 1e-3:
                r.v("C07/duplicate/%s" % name, "no crossing is reported twice", cs, observed=dict(t_e=te, previous=matched[key], root=rt), expected="one tuple per crossing")
                continue
            matched[key] = te
        # (f) order along the direction of integration
        if last is not None and (te - last) * d < -64 * e * tsc:
            r.v("C07/order/%s" % name, "events are listed in the order they are met", cs, observed=dict(t_prev=last, t_e=te, travel=d), expected="monotone along the direction of integration")
        last = te
    # (g) the per-function view of the same record (events_dict): for every event function exactly its tuples, in the order of the list
    if len(a.events):
        try:
            ed = a.events_dict
            fns = []
            for st in a.events:
                if not any(st.event is g_ for g_ in fns):
                    fns.append(st.event)
            bad = None
            if len(ed) != len(fns):
                bad = dict(functions_in_dict=len(ed), functions_in_list=len(fns))
            else:
                for g_ in fns:
                    want_t = [float(st.t) for st in a.events if st.event is g_]
                    want_y = [np.asarray(st.y, dtype=LD) for st in a.events if st.event is g_]
                    ent = ed.get(g_)
                    got_t = None if ent is None else [float(x) for x in np.asarray(ent.t).reshape(-1)]
                    if ent is None or ent.event is not g_ or got_t != want_t or np.asarray(ent.y).shape[0] != len(want_t) or \
                            any(not np.array_equal(np.asarray(ent.y[i], dtype=LD), want_y[i]) for i in range(len(want_t))):
                        bad = dict(event_index=evs.index(g_), dict_times=got_t, list_times=want_t)
                        break
            if bad is not None:
                r.v("C07/events-dict/%s" % name, "events_dict holds, per event function, exactly the tuples of that function in the order of the events list", case, observed=bad, expected="same record")
        except Exception as ex:
            r.v("C07/events-dict/%s" % name, "events_dict holds, per event function, exactly the tuples of that function in the order of the events list", case, observed=repr(ex)[:200], expected="same record")
    r.out(("cell", name, case["problem"], int(d), case["dense"], len(case["events"]), min(len(a.events), 4)))
    if hash(str(case)) % 1999 == 0:
        r.samples.append(dict(case=case, reported=[float(x.t) for x in a.events], rows=len(a)))
    return r


def run(ctx):
    ctx.rule = ("full product problem {y'=const lattice, oscillator} x 4 signed spans each x event sets (singles of every kind at interior and boundary roots, "
                "pairs in both orders, two functions with one root, one function with two roots in one/consecutive steps, triples%s) x scale s x direction flag {0,+1,-1} "
                "x 5 methods x dense on/off; every reported tuple is checked against the closed-form trajectory; "
                "distinct = distinct (method, problem, travel direction, dense, #events, #reported) classes" % ("" if ctx.quick else ", up to 6 simultaneous"))
    ctx.assumptions += ["direction of a crossing is judged along the direction of integration (the library's convention for backward runs)",
                        "location tolerance 8*(E_interp + E_grid)/|gdot| + 64 eps with E_interp = h^4/384 (h^3/100 for derivative events) and E_grid the observed grid error",
                        "residual tolerance is relative to the scale s of the event function"]
    cs = ec.cells(ctx.quick)
    grid.pmap(check_case, cs, ctx, horizon=300)
    ctx.note("cells", total=len(cs))


def replay(case):
    case = {k: v for k, v in case.items() if k not in ("event_index", "tuple_index")}
    return check_case(case)
