"""C08 — no event crossing is missed (oracle purely on recorded rows, hence sound)."""
import numpy as np

from mc.core.ctx import Res
from mc.core import grid
from mc.ref import driver
from mc.props import evcommon as ec
from mc.props import loopcommon as lc

LEVEL = "exploration"


def check_case(case):
    r = Res()
    prob0 = ec.problem(case["problem"], case["span"][0])
    evs = [ec.make_event(sp, prob0) for sp in case["events"]]
    a, prob, dtype, raised = ec.run_system(case, evs)
    r.n = 1
    name = case["method"]
    if raised:
        if raised == "budget":
            r.v("C08/runaway/%s" % name, "integration with events terminates", case, observed=dict(rows=len(a)), expected="terminates")
        else:
            r.add("raised"); r.out(("raised", name, raised[:40]))
        return r
    e = driver.eps_of(dtype)
    t0, tf = case["span"]
    d = 1.0 if tf > t0 else -1.0
    k0 = int(getattr(a, "_verif_skip", 0))          # rows of a first leg without events (round-trip cells): not judged
    T = a.t[k0:]; Y = a.y[k0:]
    reported = {}
    for st in a.events[int(getattr(a, "_verif_skip_events", 0)):]:
        reported.setdefault(evs.index(st.event), []).append(float(st.t))
    demanded = 0
    for j, g in enumerate(evs):
        sp = g.spec
        vals = []
        for k in range(len(T)):
            if sp["kind"] == "dstate":
                vals.append(float(np.reshape(g(T[k], Y[k], prob.f(T[k], Y[k])), ())))
            else:
                vals.append(float(np.reshape(g(T[k], Y[k]), ())))
        for k in range(len(T) - 1):
            g0, g1 = vals[k], vals[k + 1]
            if g0 * g1 < 0:
                up = g0 < 0          # along the direction of integration
                want = sp.get("dir", 0)
                if want == 0 or (want > 0) == up:
                    demanded += 1
                    lo, hi = (float(T[k]), float(T[k + 1])) if d > 0 else (float(T[k + 1]), float(T[k]))
                    slack = 8 * e * max(1.0, abs(lo), abs(hi))
                    if not any(lo - slack <= te <= hi + slack for te in reported.get(j, [])):
                        r.v("C08/missed/%s" % name, "a sign change of g between the ends of an accepted step is reported", dict(case, event_index=j, step=k),
                            observed=dict(step=[lo, hi], g=[g0, g1], reported=reported.get(j, [])), expected="an event of this function inside the step")
    r.add("sign_changes_demanded", demanded)
    r.out(("cell", name, case["problem"], int(d), case["dense"], len(case["events"]), min(demanded, 4)))
    if hash(str(case)) % 1999 == 0:
        r.samples.append(dict(case=case, demanded=demanded, reported={str(k): v for k, v in reported.items()}))
    return r


def gap_case(case):
    """Richardson-extrapolated wrappers (the methods the event cells do not cover): the committed state of a step and the end state of its dense pieces differ
    by the extrapolation correction.  Pass 1 runs without events and reads both; pass 2 watches levels placed (a) midway inside that gap at several step
    boundaries - 'a crossing that coincides with a step boundary' - and (b) at mid-step values; every strict sign change between recorded rows must be reported."""
    de, I = lc._imports()
    r = Res()
    name = case["method"]
    dtype = np.float64
    t0, tf = case["span"]
    d = 1.0 if tf > t0 else -1.0

    def f(t, y, **kw):
        return np.array([y[1], -y[0]], dtype=y.dtype)

    def make(events=None):
        a = de.OdeSystem(f, y0=np.array([np.sin(t0), np.cos(t0)], dtype=dtype), t=(dtype(t0), dtype(tf)), dt=dtype(0.125), rtol=dtype(case["tol"]), atol=dtype(case["tol"]),
                         dense_output=bool(case["dense"]) or events is None)
        a.method = lc.by_name(name)
        return a
    r.n = 1
    try:
        ref = make()
        ref.integrate(callback=driver.Budget(20000))
        T = np.asarray(ref.t); Y = np.asarray(ref.y)
        levels = []
        for n in range(1, len(T) - 1, max(1, (len(T) - 2) // 6)):
            # end state of the pieces of step n-1 (the piece whose end time is T[n]) versus the committed state
            ends = [p for p in ref.sol.y_interpolants if float(p.t1) == float(T[n]) or float(p.t0) == float(T[n])]
            vals = sorted(set([float(np.asarray(p.p1)[0]) for p in ends if float(p.t1) == float(T[n])] + [float(np.asarray(p.p0)[0]) for p in ends if float(p.t0) == float(T[n])]))
            yn = float(Y[n][0])
            for v in vals:
                if v != yn:
                    levels.append(0.5 * (v + yn))
            levels.append(0.5 * (float(Y[n][0]) + float(Y[n + 1][0])))
        for c in levels:
            for sc in case["scales"]:
                def g(t, y, **kw):
                    return np.asarray(sc * (y[0] - c))
                a = make([g])
                a.integrate(events=[g], callback=driver.Budget(20000))
                Tn = np.asarray(a.t); Yn = np.asarray(a.y)
                rep = [float(st.t) for st in a.events]
                e = driver.eps_of(dtype)
                for k in range(len(Tn) - 1):
                    g0, g1 = float(sc * (Yn[k][0] - c)), float(sc * (Yn[k + 1][0] - c))
                    if g0 * g1 < 0:
                        r.add("sign_changes_demanded")
                        lo, hi = (float(Tn[k]), float(Tn[k + 1])) if d > 0 else (float(Tn[k + 1]), float(Tn[k]))
                        slack = 8 * e * max(1.0, abs(lo), abs(hi))
                        if not any(lo - slack <= te <= hi + slack for te in rep):
                            # one record per missed (level, scale, step): the open finding F35 lists the inputs that fail on the unchanged tree one by one
                            gk = "%s|%r|%r|%d|%r|%r|%d" % (name, case["span"][0], case["span"][1], int(case["dense"]), float(c), float(sc), k)
                            r.v("C08/missed-gap/%s" % name, "a sign change of g between the ends of an accepted step is reported", dict(case, level=c, scale=sc, step=k, gapkey=gk),
                                observed=dict(step=[lo, hi], g=[g0, g1], reported=rep[:6]), expected="an event of this function inside the step")
    except de.exception_types.FailedIntegration as ex:
        if driver.budget_hit(ex):
            r.v("C08/runaway/%s" % name, "integration with events terminates", case, observed="step budget", expected="terminates")
        else:
            r.add("raised")
        return r
    r.out(("gap", name, int(d), case["dense"], len(levels)))
    return r


def run(ctx):
    ctx.rule = ("same cell product as C07 (problems x signed spans x event sets with 1..%d simultaneous events x scale over 12 orders of magnitude x direction flags x 5 methods x dense on/off); "
                "for every recorded step and event with a strict sign change of g between the two recorded rows (direction compatible) an event inside that step is demanded; "
                "distinct = distinct (method, problem, travel direction, dense, #events, #demanded) classes" % (3 if ctx.quick else 6))
    ctx.assumptions += ["the oracle uses only recorded rows and the user's g, with strict inequality, so it never demands an event the statement does not",
                        "direction compatibility is judged along the direction of integration"]
    cs = ec.cells(ctx.quick)
    gaps = [dict(gap=True, method=m, span=list(sp), dense=dn, tol=1e-6, scales=[1.0, -1e3])
            for m in ("RICH:RK45CKSolver:2", "RICH:ABAs5o6HSolver:2", "RICH:RK4Solver:3")
            for sp in ((0.0, 6.0), (0.0, -6.0), (2.0, -3.0)) for dn in (True, False)]           # (the same in both tiers: F35 lists its failing inputs one by one)
    grid.pmap(run_any, cs + gaps, ctx, horizon=300)
    ctx.note("cells", total=len(cs), gap_cells=len(gaps))


def run_any(case):
    return gap_case(case) if case.get("gap") else check_case(case)


def replay(case):
    if case.get("gap"):
        return gap_case({k: v for k, v in case.items() if k not in ("level", "scale", "step", "gapkey")})
    case = {k: v for k, v in case.items() if k not in ("event_index", "step")}
    return check_case(case)
