"""C08 — no event crossing is missed (oracle purely on recorded rows, hence sound)."""
import numpy as np

from mc.core.ctx import Res
from mc.core import grid
from mc.ref import driver
from mc.props import evcommon as ec

LEVEL = "exploration"


def check_case(case):
    r = Res()
    prob0 = ec.problem(case["problem"], case["span"][0])
    evs = [ec.make_event(sp, prob0) for sp in case["events"]]
    a, prob, dtype, raised = ec.run_system(case, evs)
    r.n = 1
    name = case["method"]
    if raised:
        if raised == "budget":
            r.v("C08/runaway/%s" % name, "integration with events terminates", case, observed=dict(rows=len(a)), expected="terminates")
        else:
            r.add("raised"); r.out(("raised", name, raised[:40]))
        return r
    e = driver.eps_of(dtype)
    t0, tf = case["span"]
    d = 1.0 if tf > t0 else -1.0
    T = a.t; Y = a.y
    reported = {}
    for st in a.events:
        reported.setdefault(evs.index(st.event), []).append(float(st.t))
    demanded = 0
    for j, g in enumerate(evs):
        sp = g.spec
        vals = []
        for k in range(len(T)):
            if sp["kind"] == "dstate":
                vals.append(float(g(T[k], Y[k], prob.f(T[k], Y[k]))))
            else:
                vals.append(float(g(T[k], Y[k])))
        for k in range(len(T) - 1):
            g0, g1 = vals[k], vals[k + 1]
            if g0 * g1 < 0:
                up = g0 < 0          # along the direction of integration
                want = sp.get("dir", 0)
                if want == 0 or (want > 0) == up:
                    demanded += 1
                    lo, hi = (float(T[k]), float(T[k + 1])) if d > 0 else (float(T[k + 1]), float(T[k]))
                    slack = 8 * e * max(1.0, abs(lo), abs(hi))
                    if not any(lo - slack <= te <= hi + slack for te in reported.get(j, [])):
                        r.v("C08/missed/%s" % name, "a sign change of g between the ends of an accepted step is reported", dict(case, event_index=j, step=k),
                            observed=dict(step=[lo, hi], g=[g0, g1], reported=reported.get(j, [])), expected="an event of this function inside the step")
    r.add("sign_changes_demanded", demanded)
    r.out(("cell", name, case["problem"], int(d), case["dense"], len(case["events"]), min(demanded, 4)))
    if hash(str(case)) % 1999 == 0:
        r.samples.append(dict(case=case, demanded=demanded, reported={str(k): v for k, v in reported.items()}))
    return r


def run(ctx):
    ctx.rule = ("same cell product as C07 (problems x signed spans x event sets with 1..%d simultaneous events x scale over 12 orders of magnitude x direction flags x 5 methods x dense on/off); "
                "for every recorded step and event with a strict sign change of g between the two recorded rows (direction compatible) an event inside that step is demanded; "
                "distinct = distinct (method, problem, travel direction, dense, #events, #demanded) classes" % (3 if ctx.quick else 6))
    ctx.assumptions += ["the oracle uses only recorded rows and the user's g, with strict inequality, so it never demands an event the statement does not",
                        "direction compatibility is judged along the direction of integration"]
    cs = ec.cells(ctx.quick)
    grid.pmap(check_case, cs, ctx, horizon=300)
    ctx.note("cells", total=len(cs))


def replay(case):
    case = {k: v for k, v in case.items() if k not in ("event_index", "step")}
    return check_case(case)
