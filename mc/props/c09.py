"""C09 — a terminal event stops the integration exactly at the event (E1 over event menus x continuations)."""
import numpy as np

from mc.core.ctx import Res
from mc.core import explore
from mc.ref import driver
from mc.props import evcommon as ec
from mc.props import loopcommon as lc

LEVEL = "model_checking"
LD = np.longdouble
TERMINATED = "Integration terminated upon finding a triggered event."


def menus_for(taus):
    """taus: 5 root times ordered along the direction of travel (A earliest ... E latest; C and D on step boundaries for the lattice problem)"""
    A, B, C, D, E = taus
    Bp = B + (C - B) * 0.5
    T = lambda tau, kind="state": dict(kind=kind, tau=tau, terminal=True)
    N = lambda tau, kind="time": dict(kind=kind, tau=tau, terminal=False)
    return [
        [T(B)], [T(B, "time")], [T(C)], [T(D, "time")],
        [N(A), T(B)], [T(B), N(A)], [N(E), T(B)], [T(B), N(E, "state")],
        [T(B), T(A, "time")], [T(A), T(B, "time")], [T(B), T(Bp, "time")], [T(Bp), T(B, "time")],
        [N(B), T(B)], [T(C), N(C)],
        [N(A), N(B, "state"), T(E)], [T(D), N(C), N(A, "state")], [N(A), T(E, "time"), T(D)],
    ]


SPANS = {
    "lin": [((-1.0, 2.0), [-0.75, 0.25, 0.5, 1.0, 1.75], 0.5), ((2.0, -1.0), [1.75, 0.75, 0.5, 0.0, -0.75], 0.5),
            ((-3.0, -1.0), [-2.75, -2.25, -2.0, -1.5, -1.125], 0.5), ((-1.0, -3.0), [-1.25, -1.75, -2.0, -2.5, -2.875], 0.5)],
    "osc": [((0.0, 3.0), [0.2, 0.45, 0.7, 1.0, 1.3], 0.25), ((3.0, 0.0), [2.9, 2.6, 2.3, 2.0, 1.75], 0.25), ((1.0, -2.0), [0.8, 0.55, 0.3, 0.05, -0.3], 0.25)],
}
# beside the convenient values: spans far from the origin of the time axis, steps that are not dyadic fractions
SPANS["lin"] += [((-34.0, -31.0), [-33.75, -32.75, -32.5, -32.0, -31.25], 0.3), ((34.0, 31.0), [33.75, 32.75, 32.5, 32.0, 31.25], 0.3)]
SPANS["osc"] += [((-35.0, -32.0), [-34.8, -34.55, -34.3, -34.0, -33.7], 0.1)]
METHODS = ["EulerSolver", "RK4Solver", "RK45CKSolver", "ABAs5o6HSolver", "ImplicitMidpoint"]


def fresh(cfg):
    de, I = lc._imports()
    dtype = lc.DT[cfg["dtype"]]
    t0, tf = cfg["span"]
    prob = ec.problem(cfg["problem"], t0)
    y0 = np.array(prob.y0, dtype=dtype)
    tf_cfg = (2 * t0 - tf) if cfg.get("against") else tf        # 'against': configured with the mirrored span, every integrate call names its target
    a = de.OdeSystem(prob.f, y0=y0, t=(dtype(t0), dtype(tf_cfg)), dt=dtype(cfg["dt0"]), rtol=dtype(cfg["tol"]), atol=dtype(cfg["tol"]), dense_output=bool(cfg["dense"]), constants=dict(ec.CONSTS))
    a.method = lc.by_name(cfg["method"])
    return a, prob, y0, dtype


def ops_fn(cfg, hist):
    if not hist:
        return [("ev",), ("evinf",), ("intT", 0.3), ("fault", 2), ("faultki", 2)]
    last = hist[-1][0]
    if last in ("intT", "fault", "faultki"):
        return [("ev",)]
    if last in ("ev", "evinf"):
        return [("int",), ("ev2",), ("reset",)]
    if last == "ev2":
        return [("int",)]
    if last == "reset":
        return [("ev",)]
    return []


def apply_op(a, cfg, prob, op, dtype):
    de, I = lc._imports()
    t0, tf = cfg["span"]
    obs = dict(op=list(op), i0=len(a) - 1, t_before=float(a.t[-1]), nev0=len(a.events), raised=None, evs=None, target=None)
    b = driver.Budget(20000)
    if op[0] in ("int", "ev2", "ev") and (tf - float(a.t[-1])) * (tf - t0) <= 0 and len(a) > 1:
        obs["disabled"] = True        # the end of the span is not ahead any more (after an infinite-target run): continuing would be a reversal
        return obs
    try:
        with ec.in_library():
            if op[0] == "ev" or op[0] == "evinf":
                evs = [ec.make_event(dict(sp, s=cfg["s"], dir=0), prob) for sp in cfg["menu"]]
                obs["evs"] = evs
                if op[0] == "ev":
                    obs["target"] = tf
                    a.integrate(dtype(tf), events=evs, callback=b)
                else:
                    d = 1.0 if tf > t0 else -1.0
                    obs["target"] = d * np.inf
                    a.integrate(dtype(d * np.inf), events=evs, callback=b)
            elif op[0] == "ev2":
                # a different terminal event placed 60% of the way from the current time to the end of the span
                tau = float(a.t[-1]) + 0.6 * (tf - float(a.t[-1]))
                evs = [ec.make_event(dict(kind="time", tau=tau, terminal=True, s=cfg["s"], dir=0), prob)]
                obs["evs"] = evs; obs["target"] = tf
                a.integrate(dtype(tf), events=evs, callback=b)
            elif op[0] == "int":
                obs["target"] = tf
                a.integrate(dtype(tf), callback=b)
            elif op[0] == "intT":
                obs["target"] = t0 + op[1] * (tf - t0)
                a.integrate(dtype(obs["target"]), callback=b)
            elif op[0] == "reset":
                a.reset()
            elif op[0] in ("fault", "faultki"):
                # an earlier call of the history ended with a failure (a callback raising at its second step: an exception, or a keyboard interrupt);
                # whatever that call left in the status, a later run stopped by a terminal event reports termination by event
                st = dict(n=0)

                def cb(s_):
                    st["n"] += 1
                    if st["n"] == op[1]:
                        raise (KeyboardInterrupt() if op[0] == "faultki" else RuntimeError("boom"))
                obs["target"] = tf
                try:
                    a.integrate(dtype(tf), callback=[cb, b])
                except (de.exception_types.FailedIntegration, KeyboardInterrupt) as ex:
                    if isinstance(ex, de.exception_types.FailedIntegration) and driver.budget_hit(ex):
                        raise
    except de.exception_types.FailedIntegration as e:
        obs["raised"] = "budget" if driver.budget_hit(e) else repr(e.__cause__)[:200]
    obs["i1"] = len(a) - 1
    return obs


def expected_stop(cfg, prob, evs, t_start, d):
    """earliest exact terminal root strictly ahead of t_start along the direction of travel (None if none before the span end)"""
    t0, tf = cfg["span"]
    end = tf
    best = None
    for g in evs:
        if not g.is_terminal:
            continue
        for rt in ec.exact_roots(g.spec, prob, t_start, end if np.isfinite(end) else t_start + d * 10):
            if (rt - t_start) * d > 1e-12:
                if best is None or (rt - best) * d < 0:
                    best = rt
    return best


def step(cfg, hist):
    r = Res()
    a, prob, y0, dtype = fresh(cfg)
    name = cfg["method"]
    case = dict(cfg, hist=[list(o) for o in hist])
    e = driver.eps_of(dtype)
    t0, tf = cfg["span"]
    d = 1.0 if tf > t0 else -1.0
    t0_first = a.t[0].copy()
    obs = None
    for op in hist:
        obs = apply_op(a, cfg, prob, op, dtype)
        if obs.get("disabled"):
            r.ret = None
            return r
        if obs["raised"]:
            break
    r.n = 1
    if obs is None:
        r.ret = driver.canon(a)
        return r
    if obs["raised"]:
        if obs["raised"] == "budget":
            r.v("C09/runaway/%s" % name, "integration with a terminal event terminates", case, observed=dict(rows=len(a), t_last=float(a.t[-1])), expected="stops at the event")
        else:
            r.add("raised"); r.out(("raised", name, obs["raised"][:30]))
        r.ret = None
        return r
    kind = obs["op"][0]
    T = [float(x) for x in a.t]
    if kind in ("ev", "evinf", "ev2"):
        evs = obs["evs"]
        stop = expected_stop(cfg, prob, evs, obs["t_before"], d)
        # (a terminal root exactly where the call starts - the previous call of the history happened to end on it - may be reported by this call, which then
        #  stops at once: a crossing at the hand-over belongs to one of the two calls, C07; both readings are accepted)
        at_start = any(abs(rt - obs["t_before"]) <= 1e-9 for g_ in evs if g_.is_terminal
                       for rt in ec.exact_roots(g_.spec, prob, obs["t_before"] - d * 1e-6, obs["t_before"] + d * 1e-6))
        if at_start and abs(float(a.t[-1]) - obs["t_before"]) <= 1e-5:
            stop = float(a.t[-1])
        new_events = list(a.events)[obs["nev0"]:]
        term = [st for st in new_events if st.event.is_terminal]
        accurate = cfg["problem"] == "lin" or name in ("RK4Solver", "RK45CKSolver", "ABAs5o6HSolver")
        # the event was located on the interpolant of the (rolled-back) step, which is not among the rows: bound its length by the step sizes in use
        hmax = max([abs(T[k + 1] - T[k]) for k in range(obs["i0"], len(T) - 1)] + [abs(cfg["dt0"]), abs(float(a.dt))])
        Eg = ec.grid_error(a, prob)
        if stop is not None and (stop - tf) * d < -1e-9 and accurate:
            # a terminal event lies ahead inside the span: the run must stop there
            if a.integration_status != TERMINATED or not a.success:
                r.v("C09/status/%s" % name, "status reports termination by event as a success", case, observed=dict(status=a.integration_status, success=bool(a.success), t_last=T[-1], expected_stop=stop), expected=TERMINATED)
            elif not term:
                r.v("C09/no-terminal-reported/%s" % name, "the terminal event is reported", case, observed=dict(events=[float(s.t) for s in new_events]), expected="one terminal event")
            else:
                te = float(term[-1].t)
                tsc = max(1.0, abs(te))
                if len(term) != 1:
                    r.v("C09/several-terminal/%s" % name, "only the earliest terminal event is reported", case, observed=dict(terminal=[float(s.t) for s in term]), expected="exactly one")
                if abs(T[-1] - te) > 4 * e * tsc:
                    r.v("C09/last-time/%s" % name, "last recorded time equals the event time", case, observed=dict(t_last=T[-1], t_event=te), expected="equal within 4 eps")
                lb = 8 * ((hmax ** 4 / 384 * 1.05 if cfg["problem"] == "osc" else 0.0) + 2 * Eg) + 64 * e * tsc
                if abs(te - stop) > max(lb, 1e-12) * (1 if cfg["problem"] == "lin" else 25):
                    r.v("C09/which-terminal/%s" % name, "the earliest terminal event in the direction of integration stops the run", case,
                        observed=dict(t_event=te, earliest_exact=stop, bound=lb), expected="t_event ~ earliest terminal root")
                # last state on the event surface
                g = term[-1].event
                gv = float(g(a.t[-1], a.y[-1])) if g.spec["kind"] != "dstate" else 0.0
                sb = abs(cfg["s"]) * (8 * ((hmax ** 4 / 384 * 1.05 + hmax ** 5 if cfg["problem"] == "osc" else 0.0) + (2 * Eg if name != "EulerSolver" else 0.0) + (hmax ** 2 if (name in ("EulerSolver", "ImplicitMidpoint") and cfg["problem"] == "osc") else 0.0)) + 256 * e * (tsc + 2.0))
                if abs(gv) > sb:
                    r.v("C09/off-surface/%s" % name, "last state lies on the event surface", case, observed=dict(g=gv, bound=sb, t_last=T[-1]), expected="|g(t[-1], y[-1])| <= bound")
                # nothing beyond the event: rows and reported events
                if any((x - te) * d > 4 * e * tsc for x in T):
                    r.v("C09/rows-beyond/%s" % name, "nothing beyond the event is kept", case, observed=dict(t_event=te, rows=T[-4:]), expected="no row beyond the event")
                if any((float(s.t) - te) * d > 4 * e * tsc for s in new_events):
                    r.v("C09/events-beyond/%s" % name, "no event after the terminal one is reported", case, observed=dict(t_event=te, events=[float(s.t) for s in new_events]), expected="none after")
                if new_events and not new_events[-1].event.is_terminal:
                    r.v("C09/order/%s" % name, "the terminal event is the last one reported", case, observed=dict(events=[(float(s.t), bool(s.event.is_terminal)) for s in new_events]), expected="terminal last")
                # non-terminal crossings strictly before the stop are reported (exact roots, lattice problem only)
                if cfg["problem"] == "lin":
                    for j, gq in enumerate(evs):
                        if gq.is_terminal:
                            continue
                        for rt in ec.exact_roots(gq.spec, prob, obs["t_before"], te):
                            if (rt - obs["t_before"]) * d > 1e-9 and (te - rt) * d > 1e-9 and rt not in T:
                                if not any(s.event is gq and abs(float(s.t) - rt) <= 1e-9 for s in new_events):
                                    r.v("C09/nonterminal-before-missed/%s" % name, "non-terminal events before the terminal one are reported", dict(case, event_index=j),
                                        observed=dict(root=rt, events=[float(s.t) for s in new_events]), expected="reported")
        elif stop is None or (stop - tf) * d > 1e-9:
            if kind != "evinf" and a.integration_status == TERMINATED and cfg["problem"] == "lin" and not at_start:
                r.v("C09/spurious-termination/%s" % name, "no terminal event lies ahead: the run reaches the end of the span", case, observed=dict(t_last=T[-1], events=[float(s.t) for s in new_events]), expected="ends at tf")
        ok = driver.segment_invariants(r, "C09", case, a.t, a.y, obs["i0"], obs["i1"], T[-1], t0_first, y0, dtype)
    elif kind in ("int", "intT"):
        ok = driver.segment_invariants(r, "C09", case, a.t, a.y, obs["i0"], obs["i1"], obs["target"], t0_first, y0, dtype)
    elif kind == "reset":
        if len(a) != 1 or len(a.events) != 0:
            r.v("C09/reset/%s" % name, "reset restores a pristine system", case, observed=dict(rows=len(a), events=len(a.events)), expected="1 row, no events")
    for v in r.viol:
        if v["key"].count("/") == 1:
            v["key"] = v["key"] + "/" + name
    if cfg["dense"] and kind != "reset" and not r.viol:
        rich = name.startswith("RICH")
        driver.dense_invariants(r, "C09/dense", case, a, prob.f, dtype, richardson=rich, rtol_rich=50 * cfg["tol"], exact=(prob.y if rich else None))
        for v in r.viol:
            if v["key"].startswith("C09/dense/") and v["key"].count("/") == 2:
                v["key"] = v["key"] + "/" + name
    r.out(("state", name, cfg["problem"], int(d), cfg["dense"], tuple(o[0] for o in hist), a.integration_status[:22]))
    r.ret = driver.canon(a)
    if len(hist) == 2 and hash(str(case)) % 499 == 0:
        r.samples.append(dict(config={k: v for k, v in cfg.items()}, history=[list(o) for o in hist], rows=len(a), events=[float(s.t) for s in a.events], status=a.integration_status))
    return r


def configs(ctx):
    out = []
    for pname, spans in SPANS.items():
        for (span, taus, dt0) in spans:
            for mi, menu in enumerate(menus_for(taus)):
                for m in METHODS:
                    for dense in (True, False):
                        for s in ((1.0, 1e3) if ctx.quick else (1e-3, 1.0, 1e3, 1e6)):
                            if ctx.quick and s != 1.0 and mi % 3:
                                continue
                            out.append(dict(problem=pname, span=list(span), dt0=dt0, method=m, dense=dense, dtype="float64", menu=menu, s=s, tol=1e-8, against=(len(out) % 3 == 1)))
                            if s == 1.0 and mi % 4 == 0 and m == "RK45CKSolver" and dense and pname == "osc":
                                # Richardson wrappers of adaptive pairs (their end-slope caches live in the wrapped integrators) and an FSAL pair
                                for mm in ("RICH:RK45CKSolver:2", "RICH:DOPRI45:2", "DOPRI45"):
                                    out.append(dict(problem=pname, span=list(span), dt0=dt0, method=mm, dense=dense, dtype="float64", menu=menu, s=s, tol=1e-8, against=(len(out) % 3 == 1)))
                            if s == 1.0 and mi % 4 == 0 and m in ("RK4Solver", "RK45CKSolver", "ImplicitMidpoint") and dense:
                                # single precision: another dispatch of the nonlinear solver, coarser rounding of the times
                                out.append(dict(problem=pname, span=list(span), dt0=dt0, method=m, dense=dense, dtype="float32", menu=menu, s=s, tol=1e-4))
    return out


def infgrow_case(case):
    """'finite and infinite target times': integrate to +-inf with a terminal time event far enough away that the storage has to grow several times while
    the end is unknown, with non-terminal events placed in chosen steps before it (in particular the steps that fill the storage exactly)."""
    de, I = lc._imports()
    r = Res()
    name = case["method"]
    d = case["dir"]
    dtype = np.float64
    prob = ec.Osc(0.0)
    T_stop = d * case["stop"]
    evs = [ec.make_event(dict(kind="time", tau=d * (0.1 * k + 0.05), s=1.0, dir=0), prob) for k in case["steps"]]
    evs.append(ec.make_event(dict(kind="time", tau=T_stop, s=1.0, dir=0, terminal=True), prob))
    evs.append(ec.make_event(dict(kind="time", tau=T_stop + d * 0.8, s=1.0, dir=0, terminal=True), prob))       # a later terminal event that must not be reported
    a = de.OdeSystem(prob.f, y0=np.array(prob.y0, dtype=dtype), t=(dtype(0.0), dtype(d * 1.0)), dt=dtype(0.1), rtol=dtype(1e-8), atol=dtype(1e-8), dense_output=bool(case["dense"]), constants=dict(ec.CONSTS))
    a.method = lc.by_name(name)
    r.n = 1
    try:
        with ec.in_library():
            a.integrate(dtype(d * np.inf), events=evs, callback=driver.Budget(20000))
    except de.exception_types.FailedIntegration as e:
        r.v("C09/infinite-target-raises/%s" % name, "integration to an infinite target stops at the terminal event", case, observed=repr(e.__cause__)[:200], expected="stops at the event")
        return r
    T = np.asarray(a.t); Y = np.asarray(a.y, dtype=LD)
    ok = driver.segment_invariants(r, "C09/infinite", case, a.t, a.y, 0, len(a) - 1, dtype(T_stop), dtype(0.0), np.array(prob.y0, dtype=dtype), dtype)
    for v in r.viol:
        if v["key"].count("/") == 2:
            v["key"] = v["key"] + "/" + name
    if ok:
        err = max(float(np.max(np.abs(Y[k] - prob.y(T[k])))) for k in range(len(T)))
        # fixed step 0.1 over 4.85 time units: the fourth-and-higher-order methods stay within 2e-3 of the exact solution, the second-order
        # midpoint rule within 3e-2 (its own global error is 8e-3 there); a row that does not belong to the run is off by the amplitude
        if err > (3e-2 if name == "MidpointSolver" else 2e-3):
            k = int(np.argmax([float(np.max(np.abs(Y[k] - prob.y(T[k])))) for k in range(len(T))]))
            r.v("C09/infinite-trajectory/%s" % name, "the trajectory up to the event remains valid", dict(case, row=k), observed=dict(t=float(T[k]), err=err), expected="on the exact solution")
        got = sorted(float(st.t) * d for st in a.events)
        want = sorted([0.1 * k + 0.05 for k in case["steps"]] + [case["stop"]])
        if len(got) != len(want) or max(abs(x - y) for x, y in zip(got, want)) > 1e-7:
            r.v("C09/infinite-events/%s" % name, "only the earliest terminal event and the non-terminal events before it are reported", case, observed=got[:8], expected=want[:8])
        if a.integration_status != "Integration terminated upon finding a triggered event." or not a.success:
            r.v("C09/status/%s" % name, "the status reports termination by event as a success", case, observed=a.integration_status, expected="terminated by event")
    r.out(("infgrow", name, d, case["dense"], len(case["steps"])))
    return r


def run(ctx):
    ctx.rule = ("E1 breadth-first search to depth 3 over {integrate(events), integrate(+-inf, events), integrate(30%), a call that fails at its second step (exception / keyboard interrupt)} then {integrate(), integrate(other terminal event), reset} "
                "from every configuration: 2 problems x 7 signed spans x 17 event menus (terminal / non-terminal mixes in every order of their roots, two terminals, same root, "
                "roots on step boundaries) x 5 methods x dense on/off x scales; invariants after every transition against the closed-form roots; "
                "distinct = distinct (method, problem, direction, dense, op-name history, status) classes")
    ctx.assumptions += ["'earliest terminal event' is identified against the exact roots on the lattice problem (exact) and for the accurate methods on the oscillator (within 25x the location bound)",
                        "continuation uses integrate() or a different terminal event: re-arming the same terminal event at its own root is not covered by the statement"]
    if not ctx.only or "bfs" in ctx.only:
        explore.bfs(ctx, configs(ctx), ops_fn, step, 3, section="bfs", horizon=300)
    if not ctx.only or "infgrow" in ctx.only:
        from mc.core import grid
        icases = []
        for m in ("RK4Solver", "RK5Solver", "ABAs5o6HSolver") + (() if ctx.quick else ("RK45CKSolver", "MidpointSolver")):
            for d in (1.0, -1.0):
                for dense in (False, True):
                    for k0 in list(range(8, 24)) + list(range(39, 46)):
                        icases.append(dict(infgrow=True, method=m, dir=d, dense=dense, stop=4.85, steps=[k0]))
                        if k0 % 2 == 0:
                            icases.append(dict(infgrow=True, method=m, dir=d, dense=dense, stop=4.85, steps=[k0, k0 + 1]))
        grid.pmap(infgrow_case, icases, ctx, section="infgrow", horizon=300)


def replay(case):
    if case.get("infgrow"):
        return infgrow_case({k: v for k, v in case.items() if k != "row"})
    cfg = {k: v for k, v in case.items() if k not in ("hist", "event_index", "step", "frac", "row")}
    return step(cfg, tuple(tuple(o) for o in case["hist"]))
