"""C10 — symplectic-flagged methods produce symplectic, time-reversible one-step maps; bounded energy error."""
import itertools

import numpy as np

from mc.core.ctx import Res
from mc.core import grid

LEVEL = "exploration"
LD = np.longdouble
K = 64.0


def _imports():
    import desolver as de
    from desolver import integrators as I
    return de, I


def flagged():
    de, I = _imports()
    return [M for M in I.explicit_methods() + I.implicit_methods() if M.symplectic]


def by_name(name):
    de, I = _imports()
    for M in I.explicit_methods() + I.implicit_methods():
        if M.__name__ == name:
            return M
    raise KeyError(name)


# ---------------------------------------------------------------- Hamiltonians, state layout [q..., p...]
def hamiltonian(name):
    """returns dof, H(q,p), dT/dp(p), dV/dq(q), quadratic?"""
    if name == "harmonic":
        return 1, (lambda q, p: 0.5 * p[0] ** 2 + 0.5 * 2.25 * q[0] ** 2), (lambda p: p), (lambda q: 2.25 * q), True
    if name == "coupled":
        Kq = np.array([[2.0, -0.75], [-0.75, 1.5]]); Mi = np.array([[1.0, 0.25], [0.25, 0.5]])
        return 2, (lambda q, p: 0.5 * p @ (Mi.astype(p.dtype) @ p) + 0.5 * q @ (Kq.astype(q.dtype) @ q)), (lambda p: Mi.astype(p.dtype) @ p), (lambda q: Kq.astype(q.dtype) @ q), True
    if name == "pendulum":
        return 1, (lambda q, p: 0.5 * p[0] ** 2 - np.cos(q[0])), (lambda p: p), (lambda q: np.sin(q)), False
    if name == "henon":
        def V(q):
            return 0.5 * (q[0] ** 2 + q[1] ** 2) + q[0] ** 2 * q[1] - q[1] ** 3 / 3
        def dV(q):
            return np.array([q[0] + 2 * q[0] * q[1], q[1] + q[0] ** 2 - q[1] ** 2], dtype=q.dtype)
        return 2, (lambda q, p: 0.5 * (p @ p) + V(q)), (lambda p: p), dV, False
    if name == "quartic":
        return 1, (lambda q, p: 0.5 * p[0] ** 2 + 0.25 * q[0] ** 4 + 0.5 * p[0] ** 4 * 0.125), (lambda p: p + 0.5 * p ** 3 * 0.5), (lambda q: q ** 3), False
    if name == "duffing":
        return 1, (lambda q, p: 0.5 * p[0] ** 2 - 0.5 * q[0] ** 2 + 0.25 * q[0] ** 4), (lambda p: p), (lambda q: q ** 3 - q), False
    raise KeyError(name)


def layout(dof, kind):
    """index arrays (iq, ip) of positions and momenta inside the state vector, and the kick mask (True = momentum)."""
    n = 2 * dof
    if kind == "interleaved":
        iq = np.arange(0, n, 2); ip = np.arange(1, n, 2)
    elif kind == "swapped":
        ip = np.arange(0, dof); iq = np.arange(dof, n)
    else:
        iq = np.arange(0, dof); ip = np.arange(dof, n)
    mask = np.zeros(n, dtype=bool); mask[ip] = True
    return iq, ip, mask


def make_rhs(hname, kind):
    dof, H, dT, dV, quad = hamiltonian(hname)
    iq, ip, mask = layout(dof, kind)

    def f(t, y, **kw):
        out = np.empty_like(y)
        out[iq] = dT(y[ip])
        out[ip] = -dV(y[iq])
        return out

    def jac(t, y, **kw):
        n = len(y); J = np.zeros((n, n), dtype=y.dtype); d = 1e-6
        for j in range(n):
            e = np.zeros(n, dtype=y.dtype); e[j] = d
            J[:, j] = (f(t, y + e) - f(t, y - e)) / (2 * d)
        return J

    def energy(y):
        return H(y[iq], y[ip])
    Jm = np.zeros((2 * dof, 2 * dof))
    for a in range(dof):
        Jm[iq[a], ip[a]] = 1.0; Jm[ip[a], iq[a]] = -1.0
    return dof, f, jac, energy, mask, Jm, quad


def mask_as(mask, kind):
    """what the caller hands over as the kick mask: a bool array, or any array / list whose truthy entries mark the momenta"""
    if kind == "int2":
        return np.asarray(mask).astype(np.int64) * 2        # flag bits
    if kind == "neg":
        return -np.asarray(mask).astype(np.int8)             # -1 markers
    if kind == "list":
        return [int(v) for v in mask]
    if kind == "float":
        return np.asarray(mask).astype(np.float32)
    return mask


SHAPE2D = dict(shape=None)


def one_step(M, f, jac, y, h, dtype, mask, via, implicit, cache=None):
    """one real step from state y.  With a cache dict the SAME integrator object serves every evaluation of the case
    (the natural way to evaluate a one-step map at several states); without, a fresh object is built per evaluation.
    With SHAPE2D['shape'] set (splitting methods only) the integrator sees the state as an array of that shape - rows (q_i, p_i) for the interleaved layout,
    the kick mask marking the momentum COLUMN - while the caller keeps working with the flat vector."""
    shp = SHAPE2D["shape"]
    if shp is not None and not implicit:
        f_flat = f
        SHAPE2D["shape"] = None
        try:
            dT, y1 = one_step(M, (lambda t, Y, **kw: f_flat(t, np.reshape(Y, (-1,)), **kw).reshape(shp)), jac, np.reshape(y, shp), h, dtype,
                              (None if mask is None else np.reshape(np.asarray(mask), shp)), via, implicit, cache)
        finally:
            SHAPE2D["shape"] = shp
        return dT, np.reshape(y1, (-1,))
    de, I = _imports()
    if cache is not None and "m" in cache:
        new_dt, (dT, dY) = cache["m"](cache["rhs"], dtype(0), y, {}, dtype(h))
        return dT, y + dY
    rhs = de.DiffRHS(f)
    if implicit:
        rhs.hook_jacobian_call(jac)
        m = M(y.shape, dtype=np.dtype(dtype), rtol=dtype(1e-13), atol=dtype(1e-13))
    elif via == "default":
        m = M(y.shape, dtype=np.dtype(dtype))
    elif via == "ctor":
        m = M(y.shape, dtype=np.dtype(dtype), staggered_mask=mask)
    if via in ("system", "system-kick-first") and not implicit:
        a = de.OdeSystem(f, y0=y.copy(), t=(dtype(0), dtype(h)), dt=dtype(abs(h)))
        if via == "system":
            a.method = M
            a.set_kick_vars(mask)
        else:
            a.set_kick_vars(mask)      # while the default (non-symplectic) method is still selected
            a.method = M
        if cache is not None:
            cache["m"] = a.integrator; cache["rhs"] = a.equ_rhs; cache["sys"] = a
        new_dt, (dT, dY) = a.integrator(a.equ_rhs, dtype(0), y, {}, dtype(h))
        return dT, y + dY
    if cache is not None:
        cache["m"] = m; cache["rhs"] = rhs
    new_dt, (dT, dY) = m(rhs, dtype(0), y, {}, dtype(h))
    return dT, y + dY


def warm_up(case, M, f, jac, y_like, h, dtype, mask, implicit, cache):
    """'warm': the shared integrator object has a past at ANOTHER SCALE - its first call starts from a state eight orders of magnitude larger (or smaller) than
    the states the map is then evaluated at.  Whatever the object derives from a state (tolerances of its stage solve, scalings) belongs to the call."""
    de, I = _imports()
    if not case.get("warm") or cache is None:
        return
    try:
        one_step(M, f, jac, (np.asarray(y_like, dtype=dtype) * dtype(case["warm"])), h, dtype, mask, case["via"], implicit, cache)
    except (de.exception_types.FailedToMeetTolerances, OverflowError, FloatingPointError):
        pass


def states(dof, quick):
    pts = [-0.5, 0.25, 0.75] if dof == 1 else ([-0.5, 0.75] if quick else [-0.5, 0.25, 0.75])
    return [np.array(c) for c in itertools.product(pts, repeat=2 * dof)]


def map_case(case):
    de, I = _imports()
    r = Res()
    M = by_name(case["method"])
    implicit = getattr(M, "tableau_final", None) is not None
    dtype = np.float64 if implicit else LD
    dof, f, jac, energy, mask, Jm, quad = make_rhs(case["H"], case["layout"])
    mask = mask_as(mask, case.get("mask_kind"))
    h = case["h"]
    n = 2 * dof
    sts = states(dof, case["quick"])
    if quad:
        sts = sts[:1]
    worst = 0.0
    cache = {} if case.get("reuse") else None
    SHAPE2D["shape"] = tuple(case["shape2d"]) if case.get("shape2d") else None
    warm_up(case, M, f, jac, sts[0], h, dtype, mask, implicit, cache)
    for y0 in sts:
        y0 = y0.astype(dtype)
        try:
            if quad:
                # linear map: exact columns
                cols = []
                for j in range(n):
                    e = np.zeros(n, dtype=dtype); e[j] = 1
                    dT, y1 = one_step(M, f, jac, e, h, dtype, mask, case["via"], implicit, cache)
                    if dT != dtype(h):
                        raise StopIteration
                    cols.append(np.asarray(y1, dtype=LD))
                Mj = np.stack(cols, axis=1)
                tol = (1e3 * float(np.finfo(dtype).eps) if not implicit else 1e-10) * (1 + float(np.abs(Mj).max()) ** 2)
            else:
                d = dtype(1e-6) if not implicit else dtype(1e-5)
                cols = []
                for j in range(n):
                    e = np.zeros(n, dtype=dtype); e[j] = d
                    dTp, yp = one_step(M, f, jac, y0 + e, h, dtype, mask, case["via"], implicit, cache)
                    dTm, ym = one_step(M, f, jac, y0 - e, h, dtype, mask, case["via"], implicit, cache)
                    if dTp != dtype(h) or dTm != dtype(h):
                        raise StopIteration
                    cols.append((np.asarray(yp, dtype=LD) - np.asarray(ym, dtype=LD)) / (2 * LD(d)))
                Mj = np.stack(cols, axis=1)
                tol = 1e-10 if not implicit else 1e-7
        except StopIteration:
            r.n += 1; r.add("shortened_or_failed"); continue
        except de.exception_types.FailedToMeetTolerances:
            r.n += 1; r.add("shortened_or_failed"); continue
        r.n += 1
        defect = float(np.abs(Mj.T @ Jm.astype(LD) @ Mj - Jm).max())
        worst = max(worst, defect / tol)
        if defect > tol:
            r.v("C10/symplectic/%s" % case["method"], "M^T J M = J for the one-step map", dict(case, y0=y0.astype(float)),
                observed=dict(defect=defect, tol=tol), expected="<= tol")
            break
    r.out(("map", case["method"], case["H"], case["layout"], case["via"], h > 0, bool(case.get("reuse")), case.get("mask_kind"), case.get("warm"), bool(case.get("shape2d"))))
    if case.get("sample"):
        r.samples.append(dict(section="map", case={k: v for k, v in case.items() if k != "sample"}, states=len(sts), worst_ratio=worst))
    return r


SYMMETRIC = {"ABAs5o6HSolver", "BABs9o7HSolver", "GaussLegendre4", "GaussLegendre6", "ImplicitMidpoint"}


def reverse_case(case):
    de, I = _imports()
    r = Res()
    M = by_name(case["method"])
    implicit = getattr(M, "tableau_final", None) is not None
    dtype = np.float64 if implicit else LD
    dof, f, jac, energy, mask, Jm, quad = make_rhs(case["H"], case["layout"])
    mask = mask_as(mask, case.get("mask_kind"))
    h = case["h"]
    cache = {} if case.get("reuse") else None
    SHAPE2D["shape"] = tuple(case["shape2d"]) if case.get("shape2d") else None
    warm_up(case, M, f, jac, states(dof, True)[0], h, dtype, mask, implicit, cache)
    for y0 in states(dof, True):
        y0 = y0.astype(dtype)
        try:
            dT, y1 = one_step(M, f, jac, y0, h, dtype, mask, case["via"], implicit, cache)
            dT2, y2 = one_step(M, f, jac, y1, -h, dtype, mask, case["via"], implicit, cache)
        except de.exception_types.FailedToMeetTolerances:
            r.n += 1; r.add("shortened_or_failed"); continue
        if dT != dtype(h) or dT2 != dtype(-h):
            r.n += 1; r.add("shortened_or_failed"); continue
        r.n += 1
        err = float(np.abs(np.asarray(y2, dtype=LD) - y0).max())
        tol = 1e3 * float(np.finfo(dtype).eps) * (1 + float(np.abs(y1).max())) if not implicit else 1e-9
        if err > tol:
            r.v("C10/reversible/%s" % case["method"], "a step of h followed by a step of -h returns the start", dict(case, y0=y0.astype(float)),
                observed=dict(err=err, tol=tol), expected="<= tol")
            break
    r.out(("reverse", case["method"], case["H"], case["layout"], h > 0, case.get("warm")))
    return r


def energy_case(case):
    de, I = _imports()
    r = Res()
    M = by_name(case["method"])
    implicit = getattr(M, "tableau_final", None) is not None
    dtype = np.float64
    dof, f, jac, energy, mask, Jm, quad = make_rhs(case["H"], "default")
    h = dtype(case["h"]); N = case["steps"]
    y = states(dof, True)[-1].astype(dtype)
    E0 = energy(y); Es = []
    if implicit:
        rhs = de.DiffRHS(f); rhs.hook_jacobian_call(jac)
        m = M(y.shape, dtype=np.dtype(dtype), rtol=dtype(1e-13), atol=dtype(1e-13))
        t = dtype(0)
        for i in range(N):
            try:
                new_dt, (dT, dY) = m(rhs, t, y, {}, h)
            except de.exception_types.FailedToMeetTolerances:
                r.n += 1; r.add("shortened_or_failed"); return r
            if dT != h:
                r.n += 1; r.add("shortened_or_failed"); return r
            y = y + dY; t = t + dT
            Es.append(energy(y))
    else:
        a = de.OdeSystem(f, y0=y, t=(dtype(0), h * N), dt=abs(h))
        a.method = M
        a.integrate()
        if len(a.t) != N + 1:
            r.n += 1; r.add("grid_not_uniform"); return r
        Es = [energy(yy) for yy in a.y[1:]]
    r.n += 1
    dE = np.abs(np.array(Es) - E0)
    first, second = dE[:N // 2].max(), dE[N // 2:].max()
    p = int(M.__order__)
    r.out(("energy", case["method"], case["H"], float(h)))
    if second > 2 * first + 1e-12 * (1 + abs(E0)):
        r.v("C10/energy-drift/%s" % case["method"], "energy error stays bounded (no secular drift)", case,
            observed=dict(first_half=float(first), second_half=float(second)), expected="second half <= 2 x first half")
    r.samples.append(dict(section="energy", case=case, max_dE_first=float(first), max_dE_second=float(second)))
    return r


def large_case(case):
    """Large steps, where the first stage solve of the step does not converge and the step code has to try again: the step
    either is refused (exception, or a shorter dT returned) or the stored stages solve the stage equations to the tolerance
    the integrator was given - only then is the one-step map the scheme's (symplectic) map 'up to solver tolerance'."""
    de, I = _imports()
    r = Res()
    M = by_name(case["method"])
    dtype = np.float64
    dof, f, jac, energy, mask, Jm, quad = make_rhs(case["H"], "default")
    h = dtype(case["h"]); tol = case["tol"]
    T = np.asarray(M.tableau_intermediate, dtype=LD); c, A = T[:, 0], T[:, 1:]
    b = np.asarray(M.tableau_final, dtype=LD)[0, 1:]
    outs = []
    for y0 in [np.array(v, dtype=dtype) for v in itertools.product([-2.0, 1.0, 2.5, 3.0], [-1.0, 0.5, 1.5, 2.0])]:
        rhs = de.DiffRHS(f); rhs.hook_jacobian_call(jac)
        m = M(y0.shape, dtype=np.dtype(dtype), rtol=dtype(tol), atol=dtype(tol))
        r.n += 1
        try:
            new_dt, (dT, dY) = m(rhs, dtype(0), y0.copy(), {}, h)
        except de.exception_types.FailedToMeetTolerances:
            outs.append("refused"); continue
        if dT != h:
            outs.append("shortened"); continue
        Ks = np.asarray(m.stage_values, dtype=LD)
        res = 0.0
        for i in range(A.shape[0]):
            Yi = (y0.astype(LD) + LD(dT) * (Ks @ A[i])).astype(dtype)
            res = max(res, float(np.abs(Ks[:, i] - np.asarray(f(0.0, Yi), dtype=LD)).max()))
        inc = float(np.abs(np.asarray(dY, dtype=LD) - LD(dT) * (Ks @ b)).max())
        scale = 1.0 + float(np.abs(y0).max()) + float(np.abs(Ks).max())
        bound = 4.0 * (tol + 1e-12) * scale * (1.0 + abs(float(h)))
        outs.append("accepted")
        if res > bound or inc > 1e-12 * scale * (1 + abs(float(h))):
            r.v("C10/stage-equations/%s" % case["method"], "an accepted step is built from stages that solve the stage equations to the solver tolerance",
                dict(case, y0=y0.astype(float)), observed=dict(residual=res, increment_mismatch=inc), expected="residual <= %.3g" % bound)
            break
    r.out(("large", case["method"], case["H"], float(h) > 0, tol, tuple(sorted(set(outs)))))
    return r


def table_case(case):
    r = Res()
    M = by_name(case["method"])
    T = np.asarray(M.tableau_intermediate, dtype=LD)
    u = 2.0 ** -53
    if getattr(M, "tableau_final", None) is not None:
        A = T[:, 1:]; b = np.asarray(M.tableau_final, dtype=LD)[0, 1:]
        Mm = b[:, None] * A + (b[:, None] * A).T - np.outer(b, b)
        r.n += Mm.size
        if np.abs(Mm).max() > K * u * (np.abs(b).max() * np.abs(A).max() + 1):
            r.v("C10/table/%s" % case["method"], "b_i a_ij + b_j a_ji = b_i b_j", case, observed=float(np.abs(Mm).max()), expected=0)
    else:
        co = T[:, 1:]
        r.n += co.size
        # drop leading/trailing all-zero rows, then the list must be a palindrome in each column and each column sums to one
        sums = co.sum(0)
        if np.abs(sums - 1).max() > K * u * np.abs(co).sum(0).max():
            r.v("C10/table-sum/%s" % case["method"], "drift and kick coefficients each sum to one", case, observed=sums.astype(float), expected=[1, 1])
        if M.__name__ in SYMMETRIC:
            a = co[:, 0][np.abs(co[:, 0]) > 0]; bq = co[:, 1][np.abs(co[:, 1]) > 0]
            if np.abs(a - a[::-1]).max() > K * u or np.abs(bq - bq[::-1]).max() > K * u:
                r.v("C10/table-palindrome/%s" % case["method"], "symmetric composition: coefficient lists are palindromes", case,
                    observed=dict(drift=a.astype(float), kick=bq.astype(float)), expected="palindromic")
    r.out(("table", case["method"]))
    return r


def run_case(case):
    return dict(map=map_case, reverse=reverse_case, energy=energy_case, table=table_case, large=large_case)[case["section"]](case)


def run(ctx):
    ctx.rule = ("6 symplectic-flagged methods x 5 separable Hamiltonians x state lattice x h in +-{0.5, 0.1, 0.01} x state layouts/kick masks "
                "(default, constructor mask, set_kick_vars through OdeSystem before / after the method is selected, interleaved, swapped) x {fresh integrator per evaluation, ONE integrator object reused for all evaluations}; Jacobian of the REAL one-step map "
                "(exact columns for quadratic H, central differences otherwise); reversibility for the symmetric schemes; 4096-step energy runs; table identities; "
                "distinct = distinct (section, method, H, layout, via, sign) classes")
    ctx.assumptions += [
        "nonlinear H: central differences delta=1e-6 in longdouble (explicit, tolerance 1e-10) / 1e-5 in float64 (implicit, tolerance 1e-7); quadratic H: exact columns, tolerance 1e3*eps (explicit) / 1e-10 (implicit)",
        "cells in which an implicit step was shortened or not accepted carry no claim (counted as shortened_or_failed)",
    ]
    ms = flagged()
    cases = [dict(section="table", method=M.__name__) for M in ms]
    hs = [0.5, -0.5, 0.1, -0.1, 0.01, -0.01]
    k = 0
    for M in ms:
        implicit = getattr(M, "tableau_final", None) is not None
        for H in ("harmonic", "coupled", "pendulum", "henon", "quartic"):
            dof = hamiltonian(H)[0]
            lays = [("default", "default")] if implicit else [("default", "default"), ("default", "ctor"), ("default", "system"), ("swapped", "ctor"), ("swapped", "system"), ("swapped", "system-kick-first")]
            if dof == 2:
                lays = lays + ([("interleaved", "default")] if implicit else [("interleaved", "ctor"), ("interleaved", "system"), ("interleaved", "system-kick-first")])
            for lay, via in lays:
                for h in hs:
                    if ctx.quick and implicit and abs(h) == 0.01:
                        continue
                    k += 1
                    cases.append(dict(section="map", method=M.__name__, H=H, layout=lay, via=via, h=h, quick=ctx.quick, sample=(k % 41 == 0)))
                    if not (implicit and ctx.quick and abs(h) != 0.1):
                        cases.append(dict(section="map", method=M.__name__, H=H, layout=lay, via=via, h=h, quick=ctx.quick, reuse=True))
                    if M.__name__ in SYMMETRIC and via in ("default", "ctor"):
                        cases.append(dict(section="reverse", method=M.__name__, H=H, layout=lay, via=via, h=h))
                        cases.append(dict(section="reverse", method=M.__name__, H=H, layout=lay, via=via, h=h, reuse=True))
                        if abs(h) == 0.1 and H in ("harmonic", "coupled", "pendulum"):
                            for w in (1e8, 1e-8):
                                cases.append(dict(section="reverse", method=M.__name__, H=H, layout=lay, via=via, h=h, reuse=True, warm=w))
                                cases.append(dict(section="map", method=M.__name__, H=H, layout=lay, via=via, h=h, quick=True, reuse=True, warm=w))
        if not implicit:
            # matrix-shaped states: rows (q_i, p_i), the kick mask marks the momentum column (it varies along the LAST axis); and the transposed arrangement
            for H in ("coupled", "henon"):
                for via in ("ctor", "system", "system-kick-first"):
                    for h in (0.1, -0.1):
                        for shp, lay in (([2, 2], "interleaved"), ([2, 2], "default")):
                            cases.append(dict(section="map", method=M.__name__, H=H, layout=lay, via=via, h=h, quick=True, shape2d=shp))
                            if M.__name__ in SYMMETRIC and via == "ctor":
                                cases.append(dict(section="reverse", method=M.__name__, H=H, layout=lay, via=via, h=h, shape2d=shp))
        for H in ("harmonic", "pendulum") + (() if ctx.quick else ("henon",)):
            for h in (0.1, -0.1) + (() if ctx.quick else (0.25,)):
                cases.append(dict(section="energy", method=M.__name__, H=H, h=h, steps=1024 if ctx.quick and implicit else 4096))
    # the kick mask handed over as something else than a bool array (flag bits, -1 markers, a list, a float array): its truthy entries are the momenta
    for M in ms:
        if getattr(M, "tableau_final", None) is not None:
            continue
        for H, lay in (("harmonic", "swapped"), ("pendulum", "swapped"), ("henon", "interleaved"), ("coupled", "interleaved")):
            for via in ("ctor", "system", "system-kick-first"):
                for kind in ("int2", "neg", "list", "float"):
                    for h in (0.5, -0.1):
                        cases.append(dict(section="map", method=M.__name__, H=H, layout=lay, via=via, h=h, quick=True, mask_kind=kind))
                        if M.__name__ in SYMMETRIC and via == "ctor":
                            cases.append(dict(section="reverse", method=M.__name__, H=H, layout=lay, via=via, h=h, mask_kind=kind))
    for M in ms:
        if getattr(M, "tableau_final", None) is None:
            continue
        for H in ("pendulum", "duffing", "quartic"):
            for h in (3.0, -3.0, 5.0, -5.0) + (() if ctx.quick else (4.0, -4.0, 6.0, -6.0)):
                for tol in (1e-2, 1e-4, 1e-10):
                    cases.append(dict(section="large", method=M.__name__, H=H, h=h, tol=tol))
    grid.pmap(run_case, cases, ctx, horizon=600, chunksize=1)


def replay(case):
    case = {k: v for k, v in case.items() if k != "y0"}
    return run_case(case)
