"""C11 — A-stability of the implicit schemes: |R(z)| <= 1 on the closed left half-plane, no poles there,
and the real step on y' = lambda*y reproduces R(z) and never increases |y|."""
import numpy as np

from mc.core.ctx import Res
from mc.core import grid

LEVEL = "exploration"
K = 64.0
EPS = float(np.finfo(np.float64).eps)


def _imports():
    import desolver as de
    from desolver import integrators as I
    return de, I


def implicit_classes():
    de, I = _imports()
    return list(I.implicit_methods())


def by_name(name):
    for M in implicit_classes():
        if M.__name__ == name:
            return M
    raise KeyError(name)


def tab(M):
    T = np.asarray(M.tableau_intermediate, dtype=np.float64)
    B = np.asarray(M.tableau_final, dtype=np.float64)
    return T[:, 1:], T[:, 0], B[0, 1:]


def Rz(A, b, z):
    """stability function and a rounding bound for its float64 evaluation"""
    s = len(b)
    Mz = np.eye(s) - z * A
    one = np.ones(s)
    x = np.linalg.solve(Mz, one)
    R = 1 + z * (b @ x)
    cond = np.linalg.cond(Mz)
    bound = K * EPS * (1 + cond) * (1 + abs(z) * np.abs(b) @ np.abs(x))
    return R, bound, cond


def radii(quick):
    step = 0.25
    return [10.0 ** e for e in np.arange(-3, 8 + 1e-9, step)]


def angles(n=65):
    return [np.pi / 2 + np.pi * k / (n - 1) for k in range(n)]


def table_case(case):
    r = Res()
    M = by_name(case["method"])
    A, c, b = tab(M)
    # poles: eigenvalues of A; a pole of R sits at 1/mu for every non-zero eigenvalue mu that is not cancelled.
    mu = np.linalg.eigvals(A)
    nz = mu[np.abs(mu) > 1e-12]
    r.n += len(mu)
    if np.any(nz.real <= 1e-12 * (1 + np.abs(nz))):
        r.v("C11/pole/%s" % case["method"], "no pole of R in the closed left half-plane (eigenvalues of A in the open right half-plane)", case,
            observed=dict(eigenvalues=[(float(x.real), float(x.imag)) for x in mu]), expected="Re(mu) > 0 for all non-zero eigenvalues")
    worst = 0.0
    wz = None
    for rad in radii(case["quick"]):
        for th in angles():
            z = rad * np.exp(1j * th)
            z = complex(min(z.real, 0.0), z.imag)     # clamp rounding of cos(pi/2) to the closed half-plane
            R, bound, cond = Rz(A, b, z)
            r.n += 1
            ex = abs(R) - 1.0
            if ex > bound:
                r.v("C11/stability-function/%s" % case["method"], "|R(z)| <= 1 on the closed left half-plane", dict(case, z=[z.real, z.imag]),
                    observed=dict(absR=abs(R), excess=ex, rounding_bound=bound, cond=cond), expected="<= 1")
                r.out(("table", case["method"], "violated"))
                return r
            if ex > worst:
                worst, wz = ex, z
    # value at infinity (limit): R(inf) = 1 - b^T A^-1 1 when A is invertible
    if abs(np.linalg.det(A)) > 1e-14:
        Rinf = 1 - b @ np.linalg.solve(A, np.ones(len(b)))
        r.n += 1
        if abs(Rinf) > 1 + K * EPS * np.linalg.cond(A):
            r.v("C11/stability-at-infinity/%s" % case["method"], "|R(inf)| <= 1", case, observed=float(abs(Rinf)), expected="<= 1")
        r.out(("table", case["method"], "Rinf=%.3g" % abs(Rinf)))
    else:
        r.out(("table", case["method"], "A singular"))
    r.samples.append(dict(section="table", method=case["method"], grid_points=len(radii(True)) * 65, max_excess=float(worst)))
    return r


def code_case(case):
    """real implicit step on the 2x2 block (lambda = e^{i theta}) or the scalar (theta = pi) problem, step h = +-r."""
    de, I = _imports()
    r = Res()
    M = by_name(case["method"])
    A, c, b = tab(M)
    th = case["theta"]; rad = case["r"]; sgn = case["sign"]
    lam = np.exp(1j * th)
    lam = complex(min(lam.real, 0.0), lam.imag) * sgn          # sign convention: (h, lambda) -> (-h, -lambda)
    h = np.float64(sgn * rad)
    tolv = 1e-10
    if case["dim"] == 1:
        lam = complex(lam.real, 0.0)
        if lam == 0:
            lam = complex(-1.0 * sgn, 0.0)
        Lm = np.array([[lam.real]])
        y0 = np.array([1.0])
    else:
        Lm = np.array([[lam.real, -lam.imag], [lam.imag, lam.real]])
        y0 = np.array([1.0, 0.0])
    ncols = int(case.get("cols", 0))
    if ncols:
        # matrix-shaped state: each column is an independent copy of the 2x2 block problem with its own initial vector (an ensemble of trajectories)
        y0 = np.array([[1.0, 0.5, -1.0], [0.0, 2.0, 0.25]])[:, :ncols].copy()

    def f(t, y, **kw):
        return Lm @ y

    def jac(t, y, **kw):
        if ncols:
            return np.einsum("ik,jl->ijkl", Lm, np.eye(ncols))
        return Lm.copy()
    rhs = de.DiffRHS(f)
    if case["jac"] == "user":
        rhs.hook_jacobian_call(jac)
    m = M(y0.shape, dtype=np.dtype(np.float64), rtol=np.float64(tolv), atol=np.float64(tolv))
    try:
        new_dt, (dT, dY) = m(rhs, np.float64(0.0), y0, {}, h)
    except de.exception_types.FailedToMeetTolerances:
        r.n += 1
        r.add("not_accepted")
        r.out(("code", case["method"], "no-accept"))
        return r
    r.n += 1
    r.add("accepted")
    y1 = y0 + dY
    z = complex(dT) * lam
    R, rb, cond = Rz(A, b, z)
    s = len(b)
    x = np.linalg.solve((np.eye(s) - z * A).T, b)              # b^T (I - zA)^-1
    tn = 0.5 * (tolv + tolv * 1.0)
    amp = 1 + abs(complex(dT)) * np.sum(np.abs(x)) * np.sqrt(2 * s)
    bound = 4 * tn * amp + rb + K * EPS * cond
    if ncols:
        if np.shape(y1) != np.shape(y0):
            r.v("C11/step-vs-R/%s" % case["method"], "computed step agrees with the scheme's stability function", case, observed=dict(shape=list(np.shape(y1))), expected=list(np.shape(y0)))
            return r
        y0c = y0[0] + 1j * y0[1]; y1cs = y1[0] + 1j * y1[1]
        for j in range(ncols):
            bj = bound * max(1.0, abs(y0c[j]))
            if abs(y1cs[j]) - abs(y0c[j]) > bj:
                r.v("C11/step-grows/%s" % case["method"], "an accepted step never increases |y| for Re(lambda) <= 0", dict(case, column=j),
                    observed=dict(abs_y1=abs(y1cs[j]), abs_y0=abs(y0c[j]), dT=float(dT), z=[z.real, z.imag], bound=bj), expected="|y1| <= |y0|")
                break
            if abs(y1cs[j] - R * y0c[j]) > bj:
                r.v("C11/step-vs-R/%s" % case["method"], "computed step agrees with the scheme's stability function", dict(case, column=j),
                    observed=dict(y1=[y1cs[j].real, y1cs[j].imag], R_y0=[(R * y0c[j]).real, (R * y0c[j]).imag], err=abs(y1cs[j] - R * y0c[j]), bound=bj, dT=float(dT)), expected="y1 = R(dT*lambda) y0, column by column")
                break
        r.out(("code", case["method"], "cols%d" % ncols, case["sign"], "accepted", bool(abs(dT) < abs(h))))
        return r
    y1c = complex(y1[0], y1[1]) if case["dim"] == 2 else complex(y1[0], 0.0)
    grow = abs(y1c) - 1.0
    if grow > bound:
        r.v("C11/step-grows/%s" % case["method"], "an accepted step never increases |y| for Re(lambda) <= 0", case,
            observed=dict(abs_y1=abs(y1c), dT=float(dT), z=[z.real, z.imag], bound=bound), expected="|y1| <= |y0|")
    if abs(y1c - R) > bound:
        r.v("C11/step-vs-R/%s" % case["method"], "computed step agrees with the scheme's stability function", case,
            observed=dict(y1=[y1c.real, y1c.imag], R=[R.real, R.imag], err=abs(y1c - R), bound=bound, dT=float(dT)), expected="y1/y0 = R(dT*lambda)")
    r.out(("code", case["method"], case["dim"], case["sign"], "accepted", bool(abs(dT) < abs(h))))
    if case.get("sample"):
        r.samples.append(dict(section="code", case=case, dT=float(dT), absR=float(abs(R)), abs_y1=float(abs(y1c))))
    return r


def tiny_case(case):
    """time measured in tiny units: steps of 1e-7 .. 1e-5 (float32) or 1e-15 .. 1e-13 (float64) with |lambda| correspondingly large, so that z = h lambda is
    of ordinary size while two consecutive steps of ONE integrator object differ by less than any absolute threshold of a few eps and yet by a factor of 4.
    The second step is judged against R(z2)."""
    de, I = _imports()
    r = Res()
    M = by_name(case["method"])
    A, c, b = tab(M)
    dtype = np.float32 if case["dtype"] == "float32" else np.float64
    eps = float(np.finfo(dtype).eps)
    ts = case["tscale"]
    lam = np.exp(1j * case["theta"]); lam = complex(min(lam.real, 0.0), lam.imag) * case["sign"] / ts
    Lm = np.array([[lam.real, -lam.imag], [lam.imag, lam.real]], dtype=dtype)
    tolv = 1e-4 if dtype is np.float32 else 1e-10

    def f(t, y, **kw):
        return Lm @ y

    def jac(t, y, **kw):
        return Lm.copy()
    rhs = de.DiffRHS(f); rhs.hook_jacobian_call(jac)
    y0 = np.array([1.0, 0.0], dtype=dtype)
    m = M(y0.shape, dtype=np.dtype(dtype), rtol=dtype(tolv), atol=dtype(tolv))
    h1 = dtype(case["sign"] * case["r"] * ts); h2 = dtype(4.0) * h1
    r.n = 1
    try:
        _, (dT1, dY1) = m(rhs, dtype(0.0), y0, {}, h1)
        y1 = (y0 + dY1).astype(dtype)
        _, (dT2, dY2) = m(rhs, dtype(0.0) + dT1, y1, {}, h2)
    except de.exception_types.FailedToMeetTolerances:
        r.add("not_accepted"); r.out(("tiny", case["method"], case["dtype"], "no-accept"))
        return r
    r.add("accepted")
    y2 = y1 + dY2
    z2 = complex(float(dT2)) * complex(float(Lm[0, 0]), float(Lm[1, 0]))
    R, rb, cond = Rz(A, b, z2)
    s_ = len(b)
    x = np.linalg.solve((np.eye(s_) - z2 * A).T, b)
    amp = 1 + abs(z2) * np.sum(np.abs(x)) * np.sqrt(2 * s_)
    y1c = complex(float(y1[0]), float(y1[1])); y2c = complex(float(y2[0]), float(y2[1]))
    bound = (4 * 0.5 * (tolv + tolv * abs(y1c)) * amp + rb + K * eps * (1 + cond) * (1 + abs(z2) * float(np.abs(b) @ np.abs(np.linalg.solve(np.eye(s_) - z2 * A, np.ones(s_)))))) * max(1.0, abs(y1c))
    if abs(y2c) - abs(y1c) > bound:
        r.v("C11/step-grows/%s" % case["method"], "an accepted step never increases |y| for Re(lambda) <= 0", case,
            observed=dict(abs_y1=abs(y1c), abs_y2=abs(y2c), dT=[float(dT1), float(dT2)], z2=[z2.real, z2.imag], bound=bound), expected="|y2| <= |y1|")
    elif abs(y2c - R * y1c) > bound:
        r.v("C11/step-vs-R/%s" % case["method"], "computed step agrees with the scheme's stability function", case,
            observed=dict(y2=[y2c.real, y2c.imag], R_y1=[(R * y1c).real, (R * y1c).imag], err=abs(y2c - R * y1c), bound=bound, dT=[float(dT1), float(dT2)]), expected="y2 = R(dT2*lambda) y1")
    r.out(("tiny", case["method"], case["dtype"], case["sign"], "accepted"))
    return r


def run_case(case):
    if case["section"] == "tiny":
        return tiny_case(case)
    return table_case(case) if case["section"] == "table" else code_case(case)


def run(ctx):
    ctx.rule = ("tables: 16 implicit tableaux x 45 radii (quarter decades 1e-3..1e8) x 65 angles in [pi/2, 3pi/2] + eigenvalues of A + R(inf); "
                "real code: one real implicit step per (method, radius decade, angle, sign convention, scalar / 2-vector / 2x2 and 2x3 matrix state, user/finite-difference Jacobian); "
                "distinct = distinct (section, method, dim, sign, accepted/shortened) classes")
    ctx.assumptions += [
        "|R(z)| <= 1 is decided on the declared polar grid; together with 'all non-zero eigenvalues of A have positive real part' and the bound on the imaginary axis / at infinity the maximum principle extends it to the half-plane",
        "float64 evaluation of R with rounding bound 64*eps*(1+cond(I-zA))*(1+|z| |b|^T|x|)",
        "a step that raises FailedToMeetTolerances is not an accepted step; the evidence reports accepted / not_accepted counts",
    ]
    cases = [dict(section="table", method=M.__name__, quick=ctx.quick) for M in implicit_classes()]
    rs = [10.0 ** e for e in (range(-3, 9) if ctx.quick else np.arange(-3, 8.01, 0.5))]
    ths = [np.pi / 2, 0.625 * np.pi, 0.75 * np.pi, np.pi, 1.25 * np.pi] if ctx.quick else [np.pi / 2 + np.pi * k / 8 for k in range(9)]
    k = 0
    for M in implicit_classes():
        for rad in rs:
            for th in ths:
                for sgn in (1, -1):
                    for dim, jc in ((2, "user"), (1, "user"), (2, "fd")):
                        if dim == 1 and abs(th - np.pi) > 1e-9:
                            continue
                        if jc == "fd" and (ctx.quick and not (abs(th - 0.75 * np.pi) < 1e-9)):
                            continue
                        k += 1
                        cases.append(dict(section="code", method=M.__name__, r=float(rad), theta=float(th), sign=sgn, dim=dim, jac=jc, sample=(k % 97 == 0)))
                    # matrix-shaped states (2 x 2 and 2 x 3: an ensemble of trajectories stepped together), on a sub-lattice of the radii
                    if abs(np.log10(rad) % 2) < 1e-9 or not ctx.quick:
                        for ncols, jc in ((2, "user"), (3, "user")) + (((3, "fd"),) if abs(th - 0.75 * np.pi) < 1e-9 else ()):
                            cases.append(dict(section="code", method=M.__name__, r=float(rad), theta=float(th), sign=sgn, dim=2, cols=ncols, jac=jc))
    # time in tiny units, two consecutive steps of one object (ratio 4, absolute difference below a few eps)
    for M in implicit_classes():
        for dn, ts in (("float32", 1e-7), ("float64", 1e-15), ("float64", 1e-9)):
            for rad in (0.25, 1.0, 4.0):
                for th in (0.625 * np.pi, np.pi):
                    for sgn in (1, -1):
                        cases.append(dict(section="tiny", method=M.__name__, dtype=dn, tscale=ts, r=rad, theta=float(th), sign=sgn))
    grid.pmap(run_case, cases, ctx, horizon=300)


def replay(case):
    case = {k: v for k, v in case.items() if k != "z"}
    return run_case(case)
