"""C12 — a failure leaves a consistent, resumable prefix (E2: every position of the failing call is enumerated)."""
import collections

import numpy as np

from mc.core.ctx import Res
from mc.core import grid
from mc.ref import driver
from mc.props import loopcommon as lc

LEVEL = "fault_enumeration"
LD = np.longdouble


class Boom(Exception):
    pass


KINDS = {"Boom": Boom, "KeyboardInterrupt": KeyboardInterrupt}
# exception classes a user's function really raises, among them every class the library itself catches somewhere (its own retry of a step after a failure
# of its linear algebra must not swallow a failure of the user's function), and the library's own failure classes raised by the user
EXTRA_KINDS = ["ValueError", "LinAlgError", "FloatingPointError", "ZeroDivisionError", "OverflowError", "RuntimeError", "RecursionError", "TypeError", "IndexError",
               "AssertionError", "StopIteration", "MemoryError", "OSError", "FailedToMeetTolerances"]
for _k in EXTRA_KINDS:
    if _k == "LinAlgError":
        KINDS[_k] = np.linalg.LinAlgError
    elif _k == "FailedToMeetTolerances":
        pass                    # resolved lazily (needs the library)
    else:
        KINDS[_k] = getattr(__import__("builtins"), _k)


def kind_class(kind):
    if kind == "FailedToMeetTolerances":
        de, I = lc._imports()
        return de.exception_types.FailedToMeetTolerances
    return KINDS[kind]


class Sites(object):
    def __init__(self):
        self.cnt = collections.Counter()
        self.plan = {}
        self.exc = Boom
        self.armed = False

    def arm(self, plan, exc):
        self.cnt = collections.Counter()
        self.plan = plan
        self.exc = exc
        self.armed = True

    def disarm(self):
        self.armed = False
        self.cnt = collections.Counter()

    def hit(self, site):
        self.cnt[site] += 1
        if self.armed and self.cnt[site] in self.plan.get(site, ()):
            raise self.exc()


def method_of(name):
    de, I = lc._imports()
    if name.startswith("RICH:"):
        _, base, k = name.split(":")
        return I.generate_richardson_integrator(lc.by_name(base), int(k))
    return lc.by_name(name)


def f_plain(t, y):
    return np.array([y[1], -y[0]], dtype=y.dtype)


def build(cfg):
    """fresh system + instrumented user functions"""
    de, I = lc._imports()
    S = Sites()
    t0, tf = cfg["span"]
    d = 1.0 if tf > t0 else -1.0
    dtype = lc.DT[cfg.get("dtype", "float64")]

    def rhs(t, y, **kw):
        S.hit("rhs")
        return f_plain(t, y)

    def jac(t, y, **kw):
        S.hit("jac")
        return np.array([[0.0, 1.0], [-1.0, 0.0]])

    lvl = float(np.sin(t0 + d * 0.45 * abs(tf - t0)))

    def ev1(t, y, **kw):
        S.hit("ev")
        return np.asarray(y[0] - lvl)

    tau = t0 + 0.8 * (tf - t0)

    def ev2(t, y, **kw):
        S.hit("ev")
        return np.asarray(t - tau)

    if cfg.get("terminal"):
        # the time event ends the run: the step in which it is found is rolled back and the system walks to the root in shorter steps (a nested run)
        ev2.is_terminal = True

    def cb1(s):
        S.hit("cb")

    def cb2(s):
        S.hit("cb")
    y0 = np.array([np.sin(t0), np.cos(t0)], dtype=dtype)
    r_ = de.DiffRHS(rhs)
    if cfg.get("jac") == "user":
        r_.hook_jacobian_call(jac)
    tf_cfg = (2 * t0 - tf) if cfg.get("against") else tf        # 'against': configured with the mirrored span, every integrate call names its target
    a = de.OdeSystem(r_, y0=y0, t=(dtype(t0), dtype(tf_cfg)), dt=dtype(cfg["dt0"]), rtol=dtype(cfg["tol"]), atol=dtype(cfg["tol"]), dense_output=bool(cfg["dense"]))
    a.method = method_of(cfg["method"])
    kw = dict(t=dtype(tf), callback=[cb1, cb2, driver.Budget(20000)])
    if cfg["evcb"]:
        kw["events"] = [ev1, ev2]
    else:
        kw["callback"] = [driver.Budget(20000)]
    return a, S, kw, y0, dtype


def status_ok(a, kind):
    st = a.integration_status
    if kind == "KeyboardInterrupt":
        return "KeyboardInterrupt" in st and not a.success
    return st.startswith("The integration failed") and "Caused by" in st and not a.success


def reference(cfg):
    a, S, kw, y0, dtype = build(cfg)
    S.disarm()
    a.integrate(**kw)
    return a, dict(S.cnt)


def fault_case(case):
    de, I = lc._imports()
    r = Res()
    cfg = case["cfg"]
    name = cfg["method"]
    ref, totals = reference(cfg)
    ref_t = np.array(ref.t); ref_y = np.array(ref.y)
    ref_events = [float(s.t) for s in ref.events]
    t0, tf = cfg["span"]
    fam = lc.family(name) if not name.startswith("RICH") else "richardson"
    plans = case["plans"]          # list of (site, k, kind[, site2, k2])
    rich = name.startswith("RICH")
    for plan in plans:
        site, k, kind = plan[0], plan[1], plan[2]
        a, S, kw, y0, dtype = build(cfg)
        S.arm({site: {k}}, kind_class(kind))
        exc = None
        try:
            a.integrate(**kw)
        except BaseException as e:      # noqa: the injected KeyboardInterrupt must be observed here
            exc = e
        reached = S.cnt[site] >= k
        S.disarm()
        r.n += 1
        cs = dict(cfg=cfg, site=site, k=k, kind=kind)
        key = lambda clause: "C12/%s/%s/%s" % (clause, name, site)
        if exc is None and reached:
            r.v(key("swallowed"), "if a user function raises at any point of an integration the call raises the integration-failure error carrying the cause", dict(cs, method=name),
                observed=dict(status=a.integration_status[:80], success=bool(a.success), rows=len(a)), expected="FailedIntegration caused by %s" % kind)
            r.out(("swallowed", name, site, kind))
            continue
        if exc is None:
            # the k-th call was never reached (can happen only if the run is not deterministic) -> harness problem, report loudly
            r.v(key("site-not-reached"), "fault-free call count is reproducible", cs, observed=dict(counts=dict(S.cnt)), expected=totals)
            continue
        # ---- the exception
        if kind == "KeyboardInterrupt":
            if not isinstance(exc, KeyboardInterrupt):
                r.v(key("exception"), "a keyboard interrupt propagates as itself", cs, observed=repr(exc)[:200], expected="KeyboardInterrupt")
                continue
        else:
            if not isinstance(exc, de.exception_types.FailedIntegration) or type(exc.__cause__) is not kind_class(kind):
                r.v(key("exception"), "the failure is raised as FailedIntegration carrying the original cause", cs,
                    observed=dict(exc=repr(exc)[:200], cause=repr(getattr(exc, "__cause__", None))[:100]), expected="FailedIntegration caused by the injected error")
                continue
        if not status_ok(a, kind):
            r.v(key("status"), "the status reports the failure", cs, observed=dict(status=a.integration_status[:160], success=bool(a.success)), expected="failure status, success False")
        # ---- the prefix
        n = len(a.t)
        if len(a.y) != n or n > len(ref_t) or not (np.array_equal(a.t, ref_t[:n]) and np.array_equal(a.y, ref_y[:n])):
            r.v(key("prefix"), "recorded trajectory is exactly the prefix of fully accepted steps of the fault-free run", cs,
                observed=dict(rows=n, t=[float(x) for x in a.t][-4:], ref_t=[float(x) for x in ref_t[:n]][-4:]), expected="bit-equal prefix")
            continue
        if not np.all(np.isfinite(a.y)):
            r.v(key("finite"), "prefix is finite", cs, observed="non-finite", expected="finite")
        got_events = [float(s.t) for s in a.events]
        if got_events != ref_events[:len(got_events)]:
            r.v(key("events-prefix"), "reported events are a prefix of the fault-free run's events", cs, observed=got_events, expected=ref_events)
        if any((te - float(a.t[-1])) * (tf - t0) > 0 for te in got_events):
            r.v(key("event-beyond-prefix"), "no event beyond the accepted prefix is kept", cs, observed=dict(events=got_events, t_last=float(a.t[-1])), expected="events inside the prefix")
        ok = True
        if cfg["dense"]:
            ok = driver.dense_invariants(r, "C12/dense-after-fault/%s/%s" % (name, site), cs, a, lambda t, y, **kw_: f_plain(t, y), dtype, richardson=rich, rtol_rich=50 * cfg["tol"])
        # ---- resume (optionally with a second fault first)
        second = plan[3:] if len(plan) > 3 else None
        if second:
            S.arm({second[0]: {second[1]}}, kind_class(kind))
            try:
                a.integrate(**kw)
                r.add("second_fault_not_reached")
            except BaseException:   # noqa
                pass
            S.disarm()
            if cfg["dense"]:
                driver.dense_invariants(r, "C12/dense-after-second-fault/%s/%s" % (name, site), cs, a, lambda t, y, **kw_: f_plain(t, y), dtype, richardson=rich, rtol_rich=50 * cfg["tol"])
        i0 = len(a) - 1
        try:
            a.integrate(**kw)
        except BaseException as e2:     # noqa
            r.v(key("resume-raised"), "calling integrate again continues from the end of the prefix", cs, observed=repr(getattr(e2, "__cause__", e2))[:200], expected="completes")
            continue
        end_target = tf
        if cfg.get("terminal"):
            # the resumed run stops at the terminal event again (located from other steps than in the fault-free run: compared at the level of the location)
            end_target = a.t[-1]
            if abs(float(a.t[-1]) - float(ref_t[-1])) > 1e-6 or [float(s.t) for s in a.events][-1:] != [float(a.t[-1])] or len(a.events) != len(ref_events):
                r.v(key("resume-terminal"), "calling integrate again continues correctly: it stops at the terminal event, reported once", cs,
                    observed=dict(end=float(a.t[-1]), events=[float(s.t) for s in a.events]), expected=dict(end=float(ref_t[-1]), events=ref_events))
        okseg = driver.segment_invariants(r, "C12/resume/%s/%s" % (name, site), cs, a.t, a.y, 0, len(a) - 1, end_target, ref_t[0], y0, dtype)
        if okseg:
            # (a) accuracy: the resumed trajectory is as good as the fault-free one (closed form: rotation)
            def exact_err(t, y):
                c, s_ = np.cos(LD(t) - LD(t0)), np.sin(LD(t) - LD(t0))
                ex = np.array([c * LD(y0[0]) + s_ * LD(y0[1]), -s_ * LD(y0[0]) + c * LD(y0[1])], dtype=LD)
                return float(np.max(np.abs(np.asarray(y, dtype=LD) - ex)))
            err_ref = max(exact_err(ref_t[i], ref_y[i]) for i in range(len(ref_t)))
            err_res = max(exact_err(a.t[i], a.y[i]) for i in range(len(a.t)))
            if err_res > 4 * err_ref + 500 * cfg["tol"]:
                r.v(key("resume-accuracy"), "the resumed run is as accurate as the fault-free run", cs,
                    observed=dict(err_resumed=err_res, err_fault_free=err_ref), expected="<= 4 x fault-free error + 500 tol")
            # (b) memoryless fixed-step methods: bit-identical to a fresh system started at the end of the prefix
            if fam in ("fixed-explicit", "splitting") and not second and not cfg.get("terminal"):
                cfg2 = dict(cfg, span=[float(ref_t[n - 1]), tf])
                b2, S2, kw2, _, _ = build(cfg2)
                b2 = None
                de_, _I = lc._imports()
                fresh = de_.OdeSystem(lambda t, y, **k_: f_plain(t, y), y0=np.array(ref_y[n - 1]), t=(ref_t[n - 1], dtype(tf)), dt=dtype(cfg["dt0"]),
                                      rtol=dtype(cfg["tol"]), atol=dtype(cfg["tol"]))
                fresh.method = method_of(name)
                if n - 1 > 0 and abs(float(tf) - float(ref_t[n - 1])) > 0:
                    fresh.integrate()
                    if not (np.array_equal(fresh.t, a.t[n - 1:]) and np.array_equal(fresh.y, a.y[n - 1:])):
                        r.v(key("resume-differs"), "a memoryless fixed-step method resumes exactly like a fresh system started at the end of the prefix", cs,
                            observed=dict(resumed_t=[float(x) for x in a.t[n - 1:]][:6], fresh_t=[float(x) for x in fresh.t][:6]), expected="bit-identical rows")
            if cfg["dense"]:
                driver.dense_invariants(r, "C12/dense-after-resume/%s/%s" % (name, site), cs, a, lambda t, y, **kw_: f_plain(t, y), dtype, richardson=rich, rtol_rich=50 * cfg["tol"])
        # ---- reset() directly after the fault, without resuming first (a separate execution of the same plan): always when the fault hit
        #      before the first accepted step (the prefix is just the initial point), on a sub-lattice of positions otherwise
        if n == 1 or k % 4 == 1:
            a2, S2, kw2, _, _ = build(cfg)
            S2.arm({site: {k}}, kind_class(kind))
            try:
                a2.integrate(**kw2)
            except BaseException:       # noqa
                pass
            S2.disarm()
            dt0_abs = abs(float(dtype(cfg["dt0"])))
            a2.reset()
            if (len(a2) != 1 or a2.t[0] != ref_t[0] or not np.array_equal(a2.y[0], y0) or len(a2.events) != 0 or a2.nfev != 0
                    or (a2.sol is not None and len(a2.sol.y_interpolants) != 0) or a2.integration_status != "Integration has not been run."
                    or abs(float(a2.dt)) != dt0_abs):
                r.v(key("reset-after-fault"), "reset() restores a pristine system after a failure", cs,
                    observed=dict(rows=len(a2), events=len(a2.events), nfev=int(a2.nfev), dt=float(a2.dt), status=a2.integration_status[:60], prefix_rows=n), expected="pristine (status, counters, dt, storage)")
            else:
                try:
                    a2.integrate(**kw2)
                    if not (np.array_equal(a2.t, ref_t) and np.array_equal(a2.y, ref_y) and a2.success):
                        r.v(key("reset-rerun"), "after reset the fault-free run is reproduced and reported as a success", cs,
                            observed=dict(rows=[len(a2), len(ref_t)], success=bool(a2.success), status=a2.integration_status[:60]), expected="bit-identical rows, success")
                except BaseException as e3:     # noqa
                    r.v(key("reset-rerun"), "after reset the system integrates like a fresh one", cs, observed=repr(e3)[:160], expected="completes")
        # ---- reset restores a pristine system (after the resumed run)
        if k % 3 == 0:
            a.reset()
            if len(a) != 1 or a.t[0] != ref_t[0] or not np.array_equal(a.y[0], y0) or len(a.events) != 0 or a.nfev != 0 or (a.sol is not None and len(a.sol.y_interpolants) != 0) or a.integration_status != "Integration has not been run.":
                r.v(key("reset"), "reset() restores a pristine system after a failure", cs,
                    observed=dict(rows=len(a), events=len(a.events), nfev=int(a.nfev), status=a.integration_status[:60]), expected="pristine")
        r.out((name, site, kind, cfg["dense"], cfg["evcb"], "step%d" % min(n - 1, 9)))
    r.samples.append(dict(cfg=cfg, sites=totals, plans_run=len(plans), example=plans[0]))
    return r


def tolfail_case(case):
    """'... or tolerances cannot be met': finite-time blow-up y' = +-y^2 (singular one unit after the start).  The call must raise the integration
    failure carrying FailedToMeetTolerances, report it, keep a consistent prefix (dense output included) and reset() must restore a pristine system."""
    de, I = lc._imports()
    r = Res()
    name = case["method"]
    t0, tf = case["span"]
    d = 1.0 if tf > t0 else -1.0
    dtype = np.float64

    def f(t, y, **kw):
        return d * y * y
    y0 = np.array([1.0], dtype=dtype)

    def mk():
        a = de.OdeSystem(f, y0=y0.copy(), t=(dtype(t0), dtype(tf)), dt=dtype(0.1), rtol=dtype(case["tol"]), atol=dtype(case["tol"]), dense_output=bool(case["dense"]))
        a.method = method_of(name)
        return a
    a = mk()
    exc = None
    try:
        a.integrate(callback=driver.Budget(2500))
    except de.exception_types.FailedIntegration as e:
        exc = e
    r.n = 1
    key = lambda clause: "C12/%s/%s/tolerances" % (clause, name)
    if exc is None or driver.budget_hit(exc):
        r.add("no_giveup_within_budget"); r.out(("tolfail", name, "no give-up"))
        return r
    if exc.__cause__ is None:
        r.v(key("exception"), "unmet tolerances raise the integration failure carrying the original cause", case, observed="FailedIntegration without a cause", expected="a cause (FailedToMeetTolerances, or the numerical error met at the singularity)")
        return r
    r.add("cause_" + type(exc.__cause__).__name__)
    if not isinstance(exc.__cause__, de.exception_types.FailedToMeetTolerances):
        # the run was driven into the regime where the step size underflows (thousands of rows, buffer growth with dt -> 0): what happens there
        # depends on buffer sizes and is not the scenario of the statement; only the recorded prefix is judged
        driver.segment_invariants(r, "C12/prefix/%s/tolerances" % name, case, a.t, a.y, 0, len(a) - 1, float(a.t[-1]), dtype(t0), y0, dtype)
        r.out(("tolfail", name, "other-cause"))
        return r
    if not status_ok(a, "Boom"):
        r.v(key("status"), "the status reports the failure", case, observed=dict(status=a.integration_status[:160], success=bool(a.success)), expected="failure status, success False")
    ok = driver.segment_invariants(r, "C12/prefix/%s/tolerances" % name, case, a.t, a.y, 0, len(a) - 1, float(a.t[-1]), dtype(t0), y0, dtype)
    if ok and case["dense"]:
        driver.dense_invariants(r, "C12/dense-after-fault/%s/tolerances" % name, case, a, f, dtype)
    n_first = len(a)
    t_first = np.array(a.t); y_first = np.array(a.y)
    # calling integrate again cannot succeed either, but must not corrupt the prefix
    try:
        a.integrate(callback=driver.Budget(6000))
    except Exception:
        # the situation is hopeless by construction; the statement is about the call in which the failure occurs and about what stays recorded.
        # (A step size driven to zero by the first failure can make the second call stop while sizing its buffers.)
        pass
    if len(a) < n_first or not (np.array_equal(a.t[:n_first], t_first) and np.array_equal(a.y[:n_first], y_first)):
        r.v(key("prefix-after-second-call"), "a second failing call keeps the accepted prefix", case, observed=dict(rows=[n_first, len(a)]), expected="prefix unchanged")
    elif case["dense"]:
        driver.dense_invariants(r, "C12/dense-after-second-fault/%s/tolerances" % name, case, a, f, dtype)
    a.reset()
    if len(a) != 1 or len(a.events) != 0 or a.nfev != 0 or a.integration_status != "Integration has not been run." or (a.sol is not None and len(a.sol.y_interpolants) != 0):
        r.v(key("reset"), "reset() restores a pristine system after a failure", case, observed=dict(rows=len(a), status=a.integration_status[:60]), expected="pristine")
    else:
        try:
            a.integrate(callback=driver.Budget(6000))
        except Exception:
            pass
        if not (len(a) == n_first and np.array_equal(a.t, t_first) and np.array_equal(a.y, y_first)):
            r.v(key("reset-rerun"), "after reset the run is reproduced bit for bit", case, observed=dict(rows=[n_first, len(a)]), expected="identical")
    r.out(("tolfail", name, int(d), case["dense"], min(n_first, 9)))
    r.samples.append(dict(section="tolerances", case=case, rows=n_first, t_last=float(t_first[-1])))
    return r


def configs(ctx):
    out = []
    base = [("RK4Solver", 0.7, 1e-6, None), ("DOPRI45", 0.7, 1e-4, None), ("RK45CKSolver", 3.0, 1e-4, None), ("ABAs5o6HSolver", 0.7, 1e-6, None),
            ("ImplicitMidpoint", 0.7, 1e-6, "user"), ("ImplicitMidpoint", 0.9, 1e-6, "fd"), ("RadauIIA5", 0.7, 1e-3, "user"), ("RICH:EulerSolver:3", 0.5, 1e-3, None)]
    for (m, dt0, tol, jac) in base:
        long_running = m in ("RadauIIA5", "RICH:EulerSolver:3")
        for span in (([0.0, 0.5], [1.0, 0.5]) if long_running else ([0.0, 2.0], [1.0, -1.0])):
            for dense in (True, False):
                for evcb in (True, False):
                    if jac == "fd" and (not dense or evcb):
                        continue
                    if long_running and ctx.quick and not dense:
                        continue
                    out.append(dict(method=m, span=span, dt0=(0.2 if long_running else dt0), tol=tol, jac=jac, dense=dense, evcb=evcb))
                    if m in ("RK4Solver", "RK45CKSolver") and dense and evcb:
                        out.append(dict(method=m, span=span, dt0=dt0, tol=tol, jac=jac, dense=dense, evcb=evcb, against=True))
    # a terminal event: faults inside the walk to its root (after some of the walk's steps have been accepted), dense output on and off
    for (m, dt0, tol, jac) in (("RK4Solver", 0.7, 1e-6, None), ("RK45CKSolver", 3.0, 1e-4, None), ("DOPRI45", 0.7, 1e-4, None), ("ImplicitMidpoint", 0.7, 1e-6, "user")):
        for span in ([0.0, 2.0], [1.0, -1.0]):
            for dense in (True, False):
                if ctx.quick and not dense and m not in ("RK4Solver",):
                    continue
                out.append(dict(method=m, span=span, dt0=dt0, tol=tol, jac=jac, dense=dense, evcb=True, terminal=True))
    # single precision
    out.append(dict(method="RK45CKSolver", span=[0.0, 2.0], dt0=3.0, tol=1e-4, jac=None, dense=True, evcb=True, dtype="float32"))
    out.append(dict(method="RK4Solver", span=[1.0, -1.0], dt0=0.7, tol=1e-4, jac=None, dense=True, evcb=True, dtype="float32"))
    # the same far from the origin of the time axis (rounding of t exceeds any absolute tolerance of a few eps)
    for (m, dt0, tol) in (("RK4Solver", 0.7, 1e-6), ("RK45CKSolver", 3.0, 1e-4)):
        for span in ([1000.0, 1002.0], [-1000.0, -1002.0]):
            out.append(dict(method=m, span=span, dt0=dt0, tol=tol, jac=None, dense=True, evcb=True))
    return out


def run(ctx):
    ctx.rule = ("E2 crash-point enumeration: for each configuration (8 method set-ups x 2 directions x dense on/off x with/without events+callbacks) a fault-free run numbers "
                "every call of the user's rhs, Jacobian, event functions and callbacks; then one execution per site and per exception kind (Exception subclass, KeyboardInterrupt; on the set-ups with dense output also 14 exception classes "
                "users really raise - ValueError, LinAlgError, the arithmetic errors, RuntimeError, ... and the library's own FailedToMeetTolerances) with exactly that call raising%s; after the fault: exception type and cause, status, bit-exact prefix, dense output, then resume and reset; plus 'tolerances cannot be met' cells (finite-time blow-up: FailedToMeetTolerances, prefix, second call, reset); "
                "distinct = distinct (method, site kind, exception kind, dense, events, step index of the fault) classes" % ("" if ctx.quick else "; plus all pairs (k1 in the run, k2 in the resumed run) on a sub-lattice of sites"))
    ctx.assumptions += ["a site is the k-th call of a user function since construction of the system (deterministic: verified by the site-not-reached clause)",
                        "resumed fixed-step explicit/splitting runs must be bit-identical to the fault-free run; others within 500*tol at the final time"]
    cases = []
    cfgs = configs(ctx)
    # pass 0 in the parent: count sites per configuration (cheap), then split the site lists into chunks for the pool
    tot_sites = 0
    for cfg in cfgs:
        ref, totals = reference(cfg)
        plans = []
        for site, n in sorted(totals.items()):
            for k in range(1, n + 1):
                for kind in ("Boom", "KeyboardInterrupt"):
                    if ctx.quick and kind == "KeyboardInterrupt" and k % 2 == 0 and n > 40:
                        continue
                    plans.append((site, k, kind))
        # the exception-class alphabet: every site of the set-ups with dense output (quick: those without events and callbacks, plus every third site of those
        # with them; thorough: all)
        if cfg["dense"] and not cfg.get("against") and cfg.get("dtype") is None and abs(cfg["span"][0]) < 100:
            for site, n in sorted(totals.items()):
                for k in range(1, n + 1):
                    if ctx.quick and cfg["evcb"] and (site != "rhs" or cfg.get("terminal")) and k % 3 != 1:
                        continue
                    for kind in EXTRA_KINDS:
                        if ctx.quick and n > 60 and (k + EXTRA_KINDS.index(kind)) % 4 != 0:
                            continue
                        plans.append((site, k, kind))
        if not ctx.quick:
            # pairs: second fault in the resumed run, on a sub-lattice of positions
            for site, n in sorted(totals.items()):
                for k in range(1, n + 1, max(1, n // 12)):
                    for site2, n2 in sorted(totals.items()):
                        for k2 in range(1, max(2, n2 // 2), max(1, n2 // 8)):
                            plans.append((site, k, "Boom", site2, k2))
        tot_sites += sum(totals.values())
        for i in range(0, len(plans), 40):
            cases.append(dict(cfg=cfg, plans=plans[i:i + 40]))
    ctx.note("sites", configurations=len(cfgs), user_function_calls_numbered=tot_sites)
    grid.pmap(fault_case, cases, ctx, horizon=900, chunksize=1)
    tcases = [dict(method=m, span=sp, tol=tol, dense=dn) for m in ("RK45CKSolver", "DOPRI45", "RK8713MSolver", "RadauIIA5", "LobattoIIIC4", "RICH:RK4Solver:3")
              for sp in ([0.0, 2.0], [0.0, -2.0], [-3.0, -1.0], [3.0, 1.0]) for tol in (1e-6, 1e-9) for dn in (True, False)
              if not (ctx.quick and m in ("RadauIIA5", "LobattoIIIC4", "RICH:RK4Solver:3") and (tol < 1e-6 or not dn or m == "LobattoIIIC4"))]
    grid.pmap(tolfail_case, tcases, ctx, section="tolerances", horizon=900, chunksize=1)


def replay(case):
    if "cfg" not in case:
        return tolfail_case(case)
    cfg = case["cfg"]
    plan = (case["site"], case["k"], case["kind"])
    return fault_case(dict(cfg=cfg, plans=[plan]))
