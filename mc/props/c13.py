"""C13 — results do not depend on call history; reset restores the initial state (E1 over the full operation alphabet)."""
import copy
import hashlib

import numpy as np

from mc.core.ctx import Res
from mc.core import explore
from mc.ref import driver
from mc.props import loopcommon as lc

LEVEL = "model_checking"
LD = np.longdouble
BASES = ["RK4Solver", "RK45CKSolver", "DOPRI45", "ABAs5o6HSolver", "BackwardEuler", "RadauIIA5", "RK1412Solver", "RICH:RK4Solver:3"]


def method_of(name):
    de, I = lc._imports()
    if name.startswith("RICH:"):
        _, base, k = name.split(":")
        return I.generate_richardson_integrator(lc.by_name(base), int(k))
    return lc.by_name(name)
T0, TF, DT0 = 0.0, 2.0, 0.25


class Boom(Exception):
    pass


def f_osc(t, y, k=1.0, **kw):
    return np.array([y[1], -k * y[0]], dtype=y.dtype)


def ev_term(t, y, **kw):
    return np.asarray(y[0] - 0.6)


ev_term.is_terminal = True

OPS = [("int",), ("intT", 1.0), ("intT", 0.5), ("dt", 0.125), ("rtol", 1e-4), ("atol", 1e-4), ("method", "RK4Solver"), ("method", "ABAs5o6HSolver"),
       ("tf", 3.0), ("kick", (True, False)), ("ev",), ("fault",), ("reset",), ("observe",), ("consts", "assign"), ("consts", "inplace")]


def coeff_hash():
    de, I = lc._imports()
    h = hashlib.sha1()
    for M in I.explicit_methods() + I.implicit_methods():
        h.update(np.ascontiguousarray(np.asarray(M.tableau_intermediate)).tobytes())
        tf_ = getattr(M, "tableau_final", None)
        if tf_ is not None:
            h.update(np.ascontiguousarray(np.asarray(tf_)).tobytes())
    return h.hexdigest()


def fresh(cfg, settings=None):
    de, I = lc._imports()
    dtype = lc.DT[cfg["dtype"]]
    st = dict(method=cfg["method"], rtol=1e-6, atol=1e-6, tf=TF, kick=None, k=1.0)
    if settings:
        st.update(settings)
    y0 = np.array([0.0, 1.0], dtype=dtype)
    consts = dict(k=st["k"])
    a = de.OdeSystem(f_osc, y0=y0, t=(dtype(T0), dtype(st["tf"])), dt=dtype(DT0), rtol=dtype(st["rtol"]), atol=dtype(st["atol"]),
                     dense_output=bool(cfg["dense"]), constants=consts)
    a.method = method_of(st["method"])
    if st["kick"] is not None:
        a.set_kick_vars(np.array(st["kick"]))
    return a, y0, consts, dtype


def apply_op(a, op, dtype, settings):
    de, I = lc._imports()
    k = op[0]
    b = driver.Budget(20000)
    raised = None
    try:
        if k == "int":
            a.integrate(callback=b)
        elif k == "intT":
            a.integrate(dtype(op[1]), callback=b)
        elif k == "dt":
            a.dt = dtype(op[1])
        elif k == "rtol":
            a.rtol = dtype(op[1]); settings["rtol"] = op[1]
        elif k == "atol":
            a.atol = dtype(op[1]); settings["atol"] = op[1]
        elif k == "method":
            a.method = method_of(op[1]); settings["method"] = op[1]
        elif k == "tf":
            a.tf = dtype(op[1]); settings["tf"] = op[1]
        elif k == "kick":
            a.set_kick_vars(np.array(op[1])); settings["kick"] = tuple(op[1])
        elif k == "ev":
            a.integrate(events=[ev_term], callback=b)
        elif k == "fault":
            st = dict(n=0)

            def cb(s):
                st["n"] += 1
                if st["n"] == 2:
                    raise Boom()
            a.integrate(callback=[cb, b])
        elif k == "reset":
            a.reset()
        elif k == "consts":
            # the constants of the system change between calls (a parameter scan on one object): by assigning a new dict, or inside the dict the system holds
            if op[1] == "assign":
                a.constants = dict(k=2.25)
            else:
                a.constants["k"] = 2.25
            settings["k"] = 2.25
        elif k == "observe":
            # a reader looks at everything the API exposes; looking must not change anything
            before = driver.canon(a)
            _ = (len(a), a[0], a[-1], [st.t for st in a], repr(a), str(a), a.events, a.nfev, a.integration_status, a.success)
            if not (a.sol is not None and len(a) == 1):
                _ = a[dtype(0.3)]
            if a.sol is not None and len(a) > 1:
                a.sol(np.asarray(a.t)); a.sol(a.t[-1]); a.sol.grad(a.t[0])
            if driver.canon(a) != before:
                raise AssertionError("observing the system changed its state")
    except de.exception_types.FailedIntegration as e:
        raised = "budget" if driver.budget_hit(e) else ("boom" if isinstance(e.__cause__, Boom) else repr(e.__cause__)[:160])
    return raised


def build(cfg, hist):
    a, y0, consts, dtype = fresh(cfg)
    settings = dict(method=cfg["method"], rtol=1e-6, atol=1e-6, tf=TF, kick=None)
    raised = None
    for op in hist:
        raised = apply_op(a, op, dtype, settings)
        if raised not in (None, "boom"):
            break
    return a, y0, consts, dtype, settings, raised


def ops_fn(cfg, hist):
    ops = list(OPS)
    used = [o[0] for o in hist]
    # each setter at most once per history, at most one fault and one event run (keeps the alphabet finite and the histories distinct)
    ops = [o for o in ops if not (o[0] in ("dt", "rtol", "atol", "tf", "kick", "fault", "ev", "consts") and o[0] in used)]
    if used.count("method") >= 1:
        ops = [o for o in ops if o[0] != "method"]
    if hist and hist[-1][0] == "reset":
        ops = [o for o in ops if o[0] != "reset"]
    if (hist and hist[-1][0] == "observe") or used.count("observe") >= 1:
        ops = [o for o in ops if o[0] != "observe"]
    return ops


def step(cfg, hist):
    de, I = lc._imports()
    r = Res()
    name = cfg["method"]
    case = dict(cfg, hist=[list(o) if not isinstance(o[-1], tuple) else [o[0], list(o[1])] for o in hist])
    ch0 = coeff_hash()
    a, y0, consts, dtype, settings, raised = build(cfg, hist)
    r.n = 1
    if raised not in (None, "boom"):
        if raised == "budget":
            r.v("C13/runaway/%s" % name, "operations terminate", case, observed=dict(rows=len(a)), expected="terminates")
        else:
            r.add("raised"); r.out(("raised", name, raised[:40]))
        r.ret = None
        return r
    key1 = driver.canon(a, extra=(repr(sorted(a.constants.items())),))
    # (1) determinism: identical call sequences give bit-identical states
    b, y0b, constsb, _, settings_b, _ = build(cfg, hist)
    key2 = driver.canon(b, extra=(repr(sorted(b.constants.items())),))
    if key1 != key2:
        r.v("C13/nondeterministic/%s" % name, "identical call sequences give bit-for-bit identical results", case, observed=dict(key1=key1, key2=key2), expected="equal")
    # (5) the caller's y0 and constants are never modified; shared coefficient tables untouched
    caller_changed_them = any(o[0] == "consts" and o[1] == "inplace" for o in hist)      # (the caller itself wrote into the dict the system holds - possibly its own)
    if not np.array_equal(y0, np.array([0.0, 1.0], dtype=dtype)) or (consts != dict(k=1.0) and not caller_changed_them):
        r.v("C13/caller-data-modified/%s" % name, "the caller's initial state array and constants are never modified", case, observed=dict(y0=y0.astype(float), constants=consts), expected=dict(y0=[0.0, 1.0], constants=dict(k=1.0)))
    if coeff_hash() != ch0:
        r.v("C13/coefficients-modified/%s" % name, "class-level coefficient tables are never modified", case, observed="hash changed", expected="unchanged")
    # (3) a call made when already at the target changes nothing
    tnow = a.t[-1]
    try:
        a.integrate(tnow)
        key3 = driver.canon(a, extra=(repr(sorted(a.constants.items())),))
        if key3 != key1:
            r.v("C13/noop-call-changes-state/%s" % name, "a call made when already at the target changes nothing", case, observed=dict(rows=len(a), status=a.integration_status[:60]), expected="state unchanged")
    except Exception as e:
        r.v("C13/noop-call-raises/%s" % name, "a call made when already at the target changes nothing", case, observed=repr(e)[:200], expected="returns")
    # (2) reset from this state, then integrate == fresh system with the current settings
    b.reset()
    pristine = (len(b) == 1 and b.t[0] == dtype(T0) and np.array_equal(b.y[0], np.array([0.0, 1.0], dtype=dtype)) and len(b.events) == 0
                and (b.sol is None or len(b.sol.y_interpolants) == 0) and b.nfev == 0 and b.integration_status == "Integration has not been run."
                and abs(float(b.dt)) == DT0)
    if not pristine:
        r.v("C13/reset-not-pristine/%s" % name, "after reset the system is back at (t0, y0) with no events and no dense output", case,
            observed=dict(rows=len(b), t=float(b.t[0]), events=len(b.events), nfev=int(b.nfev), status=b.integration_status[:50], dt=float(b.dt),
                          pieces=None if b.sol is None else len(b.sol.y_interpolants)), expected="pristine, dt = dt0")
    else:
        f_, _, _, _ = fresh(cfg, settings_b)
        bud1, bud2 = driver.Budget(20000), driver.Budget(20000)
        e1 = e2 = None
        try:
            b.integrate(callback=bud1)
        except de.exception_types.FailedIntegration as ex:
            e1 = repr(ex.__cause__)[:120]
        try:
            f_.integrate(callback=bud2)
        except de.exception_types.FailedIntegration as ex:
            e2 = repr(ex.__cause__)[:120]
        same = (e1 == e2) and np.array_equal(b.t, f_.t) and np.array_equal(b.y, f_.y)
        if same and cfg["dense"] and b.sol is not None:
            same = len(b.sol.y_interpolants) == len(f_.sol.y_interpolants) and all(
                np.array_equal(p.m0, q.m0) and np.array_equal(p.m1, q.m1) for p, q in zip(b.sol.y_interpolants, f_.sol.y_interpolants))
        if not same:
            r.v("C13/reset-then-integrate-differs/%s" % name, "after reset, integrating reproduces bit-for-bit a freshly constructed system with the same settings", case,
                observed=dict(rows=[len(b), len(f_)], nfev=[int(b.nfev), int(f_.nfev)], exc=[e1, e2], settings=settings_b,
                              first_diff=next((i for i in range(min(len(b), len(f_))) if b.t[i] != f_.t[i] or not np.array_equal(b.y[i], f_.y[i])), None)), expected="bit-identical")
    r.out(("state", name, tuple(o[0] for o in hist)))
    r.ret = key1
    if len(hist) == 3 and hash(str(case)) % 211 == 0:
        r.samples.append(dict(config=cfg, history=case["hist"], rows=len(a), status=a.integration_status[:40]))
    return r


def split_case(case):
    """(4) split invariance: integrate to the end in one call versus in several"""
    de, I = lc._imports()
    r = Res()
    name = case["method"]
    cfg = dict(method=name, dtype=case["dtype"], dense=False)
    one, *_ = build(cfg, (("int",),))
    parts, *_ = build(cfg, tuple(("intT", x) for x in case["cuts"]) + (("int",),))
    r.n = 1
    fam = lc.family(name)
    tol = 1e-6
    if abs(float(parts.t[-1]) - float(one.t[-1])) > 64 * driver.eps_of(lc.DT[case["dtype"]]) * 4:
        r.v("C13/split-end/%s" % name, "split runs end at the same time", case, observed=[float(parts.t[-1]), float(one.t[-1])], expected="equal")
        return r
    if fam in ("fixed-explicit", "splitting") and case["ongrid"]:
        if not (np.array_equal(one.t, parts.t) and np.array_equal(one.y, parts.y)):
            r.v("C13/split-differs/%s" % name, "an on-grid split of a fixed-step run gives bit-identical rows", case, observed=dict(rows=[len(one), len(parts)]), expected="bit-identical")
    else:
        err = float(np.max(np.abs(np.asarray(one.y[-1], dtype=LD) - np.asarray(parts.y[-1], dtype=LD))))
        # exact solution available: each run must be within its own error of the exact solution
        ex = np.array([np.sin(LD(2.0)), np.cos(LD(2.0))])
        e_one = float(np.max(np.abs(one.y[-1] - ex))); e_parts = float(np.max(np.abs(parts.y[-1] - ex)))
        if err > 200 * tol + 4 * e_one:
            r.v("C13/split-differs/%s" % name, "splitting the span into successive calls changes the answer only within tolerance", case,
                observed=dict(diff=err, err_one_call=e_one, err_split=e_parts), expected="<= 200 tol + 4 x error of the single run")
    r.out(("split", name, case["ongrid"], len(case["cuts"])))
    return r


def interleave_case(case):
    """two live systems whose calls interleave must not influence each other (shared class-level or module-level scratch state)"""
    de, I = lc._imports()
    r = Res()
    name = case["method"]
    cfg = dict(method=name, dtype="float64", dense=case["dense"])
    solo, *_ = build(cfg, (("intT", 1.0), ("int",)))
    x, y0, consts, dtype = fresh(cfg)
    x.integrate(dtype(1.0))
    # a second system of the same method with another state, tolerance and direction runs to completion in between
    other = de.OdeSystem(f_osc, y0=np.array([2.0, -3.0], dtype=dtype), t=(dtype(5.0), dtype(3.0)), dt=dtype(0.125), rtol=dtype(1e-4), atol=dtype(1e-4),
                         dense_output=True, constants=dict(k=2.5))
    other.method = method_of(case["other"])
    other.integrate()
    x.integrate()
    r.n = 1
    same = np.array_equal(x.t, solo.t) and np.array_equal(x.y, solo.y)
    if same and case["dense"]:
        same = all(np.array_equal(p.m0, q.m0) and np.array_equal(p.m1, q.m1) for p, q in zip(x.sol.y_interpolants, solo.sol.y_interpolants))
    if not same:
        r.v("C13/instances-interfere/%s" % name, "a system's results do not depend on what other systems did in between", case,
            observed=dict(rows=[len(x), len(solo)], max_dy=float(np.max(np.abs(x.y[-1] - solo.y[-1])))), expected="bit-identical to the uninterrupted run")
    r.out(("interleave", name, case["other"], case["dense"]))
    return r


def noop_case(case):
    """'a call made when already at the target changes nothing' with the REQUESTED target (the recorded end may differ from it by rounding, e.g.
    ten steps of 0.1), and the continuation after the redundant calls equals, bit for bit, that of a twin that never made them."""
    de, I = lc._imports()
    r = Res()
    name = case["method"]
    dtype = lc.DT[case["dtype"]]
    t0, t1, t2 = case["t0"], case["t1"], case["t2"]

    def make():
        a = de.OdeSystem(f_osc, y0=np.array([0.0, 1.0], dtype=dtype), t=(dtype(t0), dtype(t1)), dt=dtype(case["dt0"]), rtol=dtype(1e-6), atol=dtype(1e-6),
                         dense_output=bool(case["dense"]), constants=dict(k=1.0))
        a.method = method_of(name)
        return a
    r.n = 1
    try:
        a = make(); twin = make()
        a.integrate(callback=driver.Budget(20000)); twin.integrate(callback=driver.Budget(20000))
        k0 = driver.canon(a)
        exact_end = bool(a.t[-1] == dtype(t1))
        for how in case["redundant"]:
            if how == "plain":
                a.integrate()
            elif how == "target":
                a.integrate(dtype(t1))
            elif how == "recorded":
                a.integrate(a.t[-1])
            k1 = driver.canon(a)
            if k1 != k0:
                r.v("C13/noop-at-requested-target/%s" % name, "a call made when already at the target changes nothing", dict(case, call=how),
                    observed=dict(dt=float(a.dt), dt_twin=float(twin.dt), rows=[len(a), len(twin)], t_end=repr(a.t[-1]), exact_end=exact_end), expected="state (incl. dt) unchanged")
                return r
        a.integrate(dtype(t2), callback=driver.Budget(20000)); twin.integrate(dtype(t2), callback=driver.Budget(20000))
        if driver.canon(a) != driver.canon(twin):
            r.v("C13/continuation-after-noop/%s" % name, "identical results whether or not redundant calls were made at the target", case,
                observed=dict(rows=[len(a), len(twin)], dt=[float(a.dt), float(twin.dt)]), expected="bit-identical")
    except de.exception_types.FailedIntegration as e:
        if driver.budget_hit(e):
            r.v("C13/runaway/%s" % name, "operations terminate", case, observed="step budget exhausted", expected="terminates")
        else:
            r.add("raised")
        return r
    r.out(("noop", name, case["dtype"], exact_end, tuple(case["redundant"])))
    return r


def constarr_case(case):
    """'The caller's ... constants are never modified': an array handed over inside the constants dict, returned by the right-hand side BY REFERENCE (y' = rate):
    whatever the library does with the value of the right-hand side it must not write into it."""
    de, I = lc._imports()
    r = Res()
    name = case["method"]
    dtype = lc.DT[case["dtype"]]
    rate0 = np.array([0.5, -0.25], dtype=dtype)
    consts = dict(rate=rate0.copy(), k=1.0)

    def f(t, y, rate=None, **kw):
        return rate                      # the caller's own array
    a = de.OdeSystem(f, y0=np.array([0.0, 1.0], dtype=dtype), t=(dtype(0.0), dtype(case["tf"])), dt=dtype(0.125), rtol=dtype(1e-6), atol=dtype(1e-6), dense_output=bool(case["dense"]), constants=consts)
    a.method = method_of(name)
    if case.get("kick"):
        a.set_kick_vars(np.array([False, True]))
    r.n = 1
    try:
        a.integrate(dtype(0.5 * case["tf"]), callback=driver.Budget(20000))
        a.integrate(callback=driver.Budget(20000))
    except de.exception_types.FailedIntegration:
        r.add("raised")
        return r
    if not np.array_equal(consts["rate"], rate0) or not np.array_equal(np.asarray(a.constants["rate"]), rate0):
        r.v("C13/caller-data-modified/%s" % name, "the caller's initial state array and constants are never modified", case,
            observed=dict(rate=np.asarray(consts["rate"], dtype=float)), expected=dict(rate=rate0.astype(float)))
    want = np.array([0.0, 1.0], dtype=LD_) + LD_(case["tf"]) * rate0.astype(LD_)
    if float(np.max(np.abs(np.asarray(a.y[-1], dtype=LD_) - want))) > 1e-5:
        r.v("C13/constant-rate-result/%s" % name, "integrating y' = rate gives y0 + T rate", case, observed=np.asarray(a.y[-1], dtype=float), expected=want.astype(float))
    r.out(("constarr", name, case["dtype"], case["dense"]))
    return r


LD_ = np.longdouble


def run(ctx):
    depth = 3 if ctx.quick else 4
    ctx.rule = ("E1 breadth-first search to depth %d over {integrate(), integrate(1.0), integrate(0.5), dt=, rtol=, atol=, method= (2 choices), tf=, set_kick_vars, "
                "integrate(terminal event), faulting integrate, reset} from 8 base methods (incl. a Richardson wrapper) x dense on/off; in EVERY reached state: rebuild twice (bit-identical), caller data untouched, "
                "no-op call at the target (also in separate cells with non-dyadic steps, where the recorded end differs from the requested target by rounding), reset -> pristine -> integrate bit-identical to a fresh system with the current settings; plus split-invariance cells; "
                "distinct = distinct (method, op-name history) classes" % depth)
    ctx.assumptions += ["'same settings' of the fresh system = current method, rtol, atol, tf, kick mask, the constructor's dt and dense flag",
                        "setters are used at most once per history; histories are bounded by the depth"]
    cfgs = [dict(method=m, dtype="float64", dense=d) for m in BASES for d in (False, True)
            if not (ctx.quick and d and m in ("DOPRI45", "BackwardEuler", "RK1412Solver"))]
    if not ctx.quick:
        # depth 4 from three representative set-ups, depth 3 from all others
        for c in cfgs:
            if not ((c["method"], c["dense"]) in (("RK45CKSolver", False), ("ABAs5o6HSolver", True), ("RadauIIA5", False))):
                c["_depth"] = 3
    if not ctx.quick:
        cfgs += [dict(method=m, dtype="longdouble", dense=False, _depth=3) for m in BASES[:4]]
    # single precision (another dispatch of the nonlinear solver, coarser rounding of times): two set-ups at depth 2 (quick) / 3
    cfgs += [dict(method=m, dtype="float32", dense=d, _depth=2 if ctx.quick else 3) for (m, d) in (("RK45CKSolver", True), ("BackwardEuler", False))]
    if not ctx.only or "bfs" in ctx.only:
        explore.bfs(ctx, cfgs, ops_fn, step, depth, section="bfs", horizon=600)
    if not ctx.only or "split" in ctx.only:
        from mc.core import grid
        cases = []
        allm = lc.FIXED_EXPLICIT + lc.SPLITTING + lc.ADAPTIVE_EXPLICIT + (lc.IMPLICIT_ADAPTIVE[:2] if ctx.quick else lc.IMPLICIT_ADAPTIVE + lc.IMPLICIT_FIXED)
        for m in allm:
            for cuts, ongrid in (([1.0], True), ([0.5, 1.0, 1.5], True), ([0.6], False), ([0.3, 1.1], False)):
                cases.append(dict(method=m, dtype="float64", cuts=cuts, ongrid=ongrid))
        grid.pmap(split_case, cases, ctx, section="split", horizon=600)
        icases = [dict(method=m, other=o, dense=d) for m in BASES + ["SymplecticEulerSolver", "GaussLegendre4", "ImplicitMidpoint"] for o in (m, "RK4Solver", "RadauIIA5", "ABAs5o6HSolver") for d in (False, True)]
        grid.pmap(interleave_case, icases, ctx, section="interleave", horizon=600)
    if not ctx.only or "noop" in ctx.only:
        from mc.core import grid
        ncases = []
        for m in lc.FIXED_EXPLICIT[:3] + ["RK4Solver"] + lc.SPLITTING[:2] + ["RK45CKSolver", "DOPRI45", "ImplicitMidpoint", "RadauIIA5", "RICH:RK4Solver:3"]:
            for (t0, t1, t2) in ((0.0, 1.0, 2.0), (0.0, -1.0, -2.0), (-0.3, 0.7, 1.3), (0.0, 1.0, 0.5), (0.0, 3.0, 3.5), (3.0, 0.0, -0.5), (1000.0, 1003.0, 1003.5), (-1000.0, -1003.0, -1002.5)):
                for dt0 in (0.1, 0.3, 0.25):
                    for red in (["plain"], ["target"], ["plain", "target", "recorded"]):
                        for dn in (("float64", "float32") if ctx.quick else ("float64", "longdouble", "float32")):
                            for dense in ((False,) if ctx.quick else (False, True)):
                                ncases.append(dict(noop=True, method=m, dtype=dn, dense=dense, t0=t0, t1=t1, t2=t2, dt0=dt0, redundant=red))
        grid.pmap(noop_case, ncases, ctx, section="noop", horizon=600)
        ccases = [dict(constarr=True, method=m, dtype=dn, dense=d, tf=tf, kick=(m in lc.SPLITTING))
                  for m in lc.FIXED_EXPLICIT[:2] + ["RK4Solver"] + lc.SPLITTING + ["RK45CKSolver", "DOPRI45", "ImplicitMidpoint", "RadauIIA5", "RICH:RK4Solver:3", "RICH:ABAs5o6HSolver:2"]
                  for dn in ("float64", "float32") for d in (False, True) for tf in (2.0, -2.0)]
        grid.pmap(constarr_case, ccases, ctx, section="noop", horizon=600)
        ocases = [dict(ownership=True, method=m, dtype=dn, dense=d, length=(3 if ctx.quick else 4)) for m in ("RK4Solver", "RK45CKSolver", "ABAs5o6HSolver", "ImplicitMidpoint")
                  for dn in ("float64", "float32") for d in (False, True)]
        grid.pmap(ownership_case, ocases, ctx, section="noop", horizon=600)


OWN_OPS = ["int", "reset", "del", "assign", "read", "fail"]


def ownership_case(case):
    """'the caller's ... constants are never modified': every sequence of {integrate, reset, del system.constants, system.constants = {...}, read the constants
    property, a failing run} up to the length bound on a system built with a caller-owned dictionary; after every operation the caller's dictionary (and the
    array inside it) is what the caller put there, and a second system that shares it still reproduces the closed form."""
    import itertools
    de, I = lc._imports()
    r = Res()
    dtype = lc.DT[case["dtype"]]
    name = case["method"]
    warr = np.array([1.0, -1.0], dtype=dtype)

    def f(t, y, w=None, gain=1.0, **kw):
        w_ = w if w is not None else np.array([0.25, -0.25], dtype=y.dtype)      # (what the function does when the constant does not arrive)
        return gain * np.array([w_[0] * y[1], w_[1] * y[0]], dtype=y.dtype)
    for hist in itertools.product(OWN_OPS, repeat=case["length"]):
        owned = dict(w=warr.copy(), gain=1.0)
        snapshot = dict(w=owned["w"].copy(), gain=1.0)
        y0 = np.array([0.0, 1.0], dtype=dtype)
        a = de.OdeSystem(f, y0=y0.copy(), t=(dtype(0.0), dtype(1.0)), dt=dtype(0.125), rtol=dtype(1e-6), atol=dtype(1e-6), constants=owned, dense_output=bool(case["dense"]))
        a.method = lc.by_name(name)
        r.n += 1
        for i, op in enumerate(hist):
            try:
                if op == "int":
                    a.integrate(callback=driver.Budget(5000))
                elif op == "reset":
                    a.reset()
                elif op == "del":
                    del a.constants
                elif op == "assign":
                    a.constants = dict(w=np.array([2.0, -2.0], dtype=dtype), gain=0.5)
                elif op == "read":
                    _ = dict(a.constants)
                elif op == "fail":
                    st = dict(n=0)

                    def cb(s_):
                        st["n"] += 1
                        if st["n"] == 2:
                            raise RuntimeError("boom")
                    try:
                        a.integrate(callback=[cb])
                    except de.exception_types.FailedIntegration:
                        pass
            except Exception as ex:
                break           # (an operation that is refused, e.g. a run without constants the function needs, carries no claim here)
            if set(owned.keys()) != set(snapshot.keys()) or not np.array_equal(owned["w"], snapshot["w"]) or owned["gain"] != snapshot["gain"]:
                r.v("C13/caller-constants/%s" % name, "the caller's constants are never modified", dict(case, hist=list(hist), failing_op=i),
                    observed=dict(keys=sorted(owned.keys()), w=np.asarray(owned.get("w", [])).tolist(), gain=owned.get("gain")), expected=dict(keys=["gain", "w"], w=snapshot["w"].tolist(), gain=1.0))
                break
        r.out(("ownership", name, hist))
    return r


def replay(case):
    if case.get("ownership"):
        return ownership_case({k: v for k, v in case.items() if k not in ("hist", "failing_op")})
    if "cuts" in case:
        return split_case(case)
    if "other" in case:
        return interleave_case(case)
    if case.get("noop"):
        return noop_case({k: v for k, v in case.items() if k != "call"})
    if case.get("constarr"):
        return constarr_case(case)
    cfg = {k: v for k, v in case.items() if k not in ("hist", "_depth")}
    hist = tuple(tuple(o) if not isinstance(o[-1], list) else (o[0], tuple(o[1])) for o in case["hist"])
    return step(cfg, hist)
