"""C14 — bracketing root finders (scalar and vectorised Brent) return certified roots."""
import itertools

import numpy as np

from mc.core.ctx import Res
from mc.core import grid

LEVEL = "exploration"
DT = {"float32": np.float32, "float64": np.float64, "longdouble": np.longdouble}


def _imports():
    from desolver.utilities import optimizer as opt
    from desolver import backend as D
    return opt, D


def make_fn(name, r, s, dtype):
    r = dtype(r); s = dtype(s)
    if name == "linear":
        return lambda x: s * (x - r)
    if name == "cubic":
        return lambda x: s * (x - r) ** 3
    if name == "quadratic":
        return lambda x: s * (x * x - r * r)
    if name == "exp":
        return lambda x: s * (np.exp(x) - np.exp(r))
    if name == "tanh":
        return lambda x: s * np.tanh(dtype(50) * (x - r))
    if name == "jump":
        return lambda x: s * np.where(x >= r, dtype(1), dtype(-1))
    if name == "sin":
        return lambda x: s * np.sin(dtype(3 * np.pi) * (x - r))
    if name == "plateau":
        # a small negative plateau left of r, a jump at r, steep and large to the right: interpolation is slow on it
        return lambda x: s * np.where(x < r, dtype(-1e-3), dtype(1e6) * (dtype(1) + x - r))
    raise KeyError(name)


FUNCS = ["linear", "cubic", "quadratic", "exp", "tanh", "jump", "sin"]
# (a, b, r): root interior / at an end / absent; both orders; one bracket beyond |x| = 4
BRACKETS = [(-1.0, 2.0, 0.3), (2.0, -1.0, 0.3), (0.3, 2.0, 0.3), (-1.0, 0.3, 0.3), (1.0, 2.0, 0.3), (2.0, 1.0, 0.3), (5.0, 9.0, 7.3), (9.0, 5.0, 7.3), (-9.0, -5.0, -7.3), (0.25, 0.375, 0.3),
            # wide brackets whose ends differ by orders of magnitude from the root (relative tolerances must follow the iterate, not the initial end)
            (0.0, 4096.0, 0.3), (4096.0, 0.0, 0.3), (-1024.0, 1.0, 0.3), (0.0, 4096.0, 3000.7), (4096.0, 0.0, 3000.7)]


# brackets nine orders of magnitude wider than the root's neighbourhood, both orders: with tol = None the solvers can exhaust their iteration budget here
# (see the open finding F40); whatever they then report must still be true
WIDE = [(-1e9, 3e9, 0.0), (3e9, -1e9, 0.0), (-1e9, 3e9, 0.3), (3e9, -1e9, 0.3), (-3e9, 1e9, -0.3), (1e9, -3e9, -0.3)]


def eff_tol(tol, dtype, D):
    e = D.epsilon(np.dtype(dtype))
    if tol is None or tol < e:
        return float(e)
    return float(tol)


def judge(r, key, f, a, b, x, ok, tol_eff, dtype, cs):
    """clauses (a)-(d) for one (function, bracket, answer)"""
    lo, hi = (a, b) if a <= b else (b, a)
    fa, fb = f(dtype(a)), f(dtype(b))
    sign_change = bool(np.sign(fa) * np.sign(fb) < 0)
    end_root = min(abs(float(fa)), abs(float(fb))) <= tol_eff
    x = np.asarray(x).reshape(())
    finite_pt = bool(np.isfinite(x))
    if finite_pt and not (lo <= x <= hi):
        r.v(key + "/outside-bracket", "the returned point lies inside the bracket", cs, observed=dict(x=float(x), bracket=[a, b]), expected="inside")
        return
    if not finite_pt and (sign_change or ok):
        r.v(key + "/no-point", "a point inside the bracket is returned", cs, observed=dict(x=float(x), success=bool(ok)), expected="finite point")
        return
    xs = max(1.0, abs(float(x))) if finite_pt else 1.0
    ulp = float(np.finfo(dtype).eps) * xs
    delta = dtype(max(tol_eff * xs, 4 * ulp) * 1.0000001)

    def change_near(xx):
        l_ = max(dtype(lo), xx - delta); h_ = min(dtype(hi), xx + delta)
        fl, fh, fx = f(l_), f(h_), f(xx)
        return bool(np.sign(fl) * np.sign(fh) <= 0 or fx == 0 or np.sign(fl) * np.sign(fx) <= 0 or np.sign(fx) * np.sign(fh) <= 0)
    if (not sign_change) and (float(fa) == 0.0 or float(fb) == 0.0):
        # an exact root sits on an end point of the bracket ('roots at interior/end points'): it must be found
        if not ok or not finite_pt or not (abs(float(f(dtype(x)))) <= tol_eff or change_near(dtype(x))):
            r.v(key + "/end-point-root-lost", "a root exactly at an end point of the bracket is returned with success", cs,
                observed=dict(x=float(x) if finite_pt else "inf", success=bool(ok), fa=float(fa), fb=float(fb)), expected="success at a root")
            return
    if sign_change:
        if not ok:
            r.v(key + "/sign-change-no-success", "a sign change over the bracket => success is reported", cs,
                observed=dict(x=float(x), fx=float(f(dtype(x))), success=False), expected="success")
            return
        if not change_near(dtype(x)):
            r.v(key + "/not-near-sign-change", "the point is within the requested tolerance of a sign change", cs,
                observed=dict(x=float(x), delta=float(delta), f=[float(f(dtype(x) - delta)), float(f(dtype(x))), float(f(dtype(x) + delta))]), expected="sign change within tolerance")
            return
    if ok:
        fx = abs(float(f(dtype(x))))
        if not (fx <= tol_eff or change_near(dtype(x))):
            r.v(key + "/false-success", "success => f is zero there to within the tolerance or changes sign within the tolerance", cs,
                observed=dict(x=float(x), abs_f=fx, tol=tol_eff), expected="|f| <= tol or sign change nearby")
            return
    # (d) 'with no sign change and no root at an end point no success is claimed' -- also when the bracket happens to contain an even number of roots
    #     and the returned point is one of them: nothing certified that bracket.  "No root at an end point" is read at the level of the tolerance.
    if ok and not sign_change and not end_root:
        r.v(key + "/success-without-sign-change", "with no sign change over the bracket and no root at an end point no success is claimed", cs,
            observed=dict(x=float(x), success=True, fa=float(fa), fb=float(fb)), expected="no success")


def scalar_case(case):
    opt, D = _imports()
    r = Res()
    dtype = DT[case["dtype"]]
    tol_eff = eff_tol(case["tol"], dtype, D)
    for fn in FUNCS:
        for (a, b, rt) in BRACKETS:
            for s in case["scales"]:
                f = make_fn(fn, rt, s, dtype)
                cs = dict(section="scalar", dtype=case["dtype"], tol=case["tol"], fn=fn, bracket=[a, b], root=rt, scale=s)
                x, ok = opt.brentsroot(f, [dtype(a), dtype(b)], tol=case["tol"])
                r.n += 1
                # tolerance of the residual clause scales with nothing: the statement says 'to within the tolerance'
                judge(r, "C14/scalar/%s" % fn, f, a, b, x, bool(ok), tol_eff, dtype, cs)
                r.out(("scalar", fn, case["dtype"], bool(ok), s >= 1e3, a < b))
    for fn in ("plateau", "jump", "tanh"):
        for (a, b, rt) in WIDE:
            for s in (1.0, 1e-6, 1e3):
                f = make_fn(fn, rt, s, dtype)
                cs = dict(section="scalar", dtype=case["dtype"], tol=case["tol"], fn=fn, bracket=[a, b], root=rt, scale=s, wide=True)
                x, ok = opt.brentsroot(f, [dtype(a), dtype(b)], tol=case["tol"])
                r.n += 1
                judge(r, "C14/scalar-wide/%s" % fn, f, a, b, x, bool(ok), tol_eff, dtype, cs)
                r.out(("scalar-wide", fn, case["dtype"], bool(ok), a < b))
    r.samples.append(dict(section="scalar", dtype=case["dtype"], tol=case["tol"], functions=len(FUNCS), brackets=len(BRACKETS), scales=case["scales"]))
    return r


def vector_case(case):
    opt, D = _imports()
    r = Res()
    dtype = DT[case["dtype"]]
    tol_eff = eff_tol(case["tol"], dtype, D)
    # the vector of cases is built from the scalar alphabet: a sliding window of length L over the enumeration order
    items = [(fn, br, s) for fn in FUNCS for br in BRACKETS for s in case["scales"]]
    L = case["length"]
    for start in range(0, len(items), max(1, L)):
        win = [items[(start + k * case["stride"]) % len(items)] for k in range(L)]
        fs = [make_fn(fn, br[2], s, dtype) for (fn, br, s) in win]
        A = np.array([br[0] for (_, br, _) in win], dtype=dtype); B = np.array([br[1] for (_, br, _) in win], dtype=dtype)
        xs, oks = opt.brentsrootvec(fs, [A.copy(), B.copy()], tol=case["tol"])
        r.n += 1
        xs = np.asarray(xs); oks = np.asarray(oks)
        if xs.shape != (L,) or oks.shape != (L,):
            r.v("C14/vector/shape", "one point and one flag per function", dict(section="vector", **{k: v for k, v in case.items() if k != "section"}, start=start), observed=dict(x=xs.shape, ok=oks.shape), expected=(L,))
            continue
        for i, (fn, br, s) in enumerate(win):
            cs = dict(section="vector", dtype=case["dtype"], tol=case["tol"], length=L, stride=case["stride"], start=start, component=i, fn=fn, bracket=list(br[:2]), root=br[2], scale=s, scales=case["scales"])
            f = fs[i]
            xsc, oksc = opt.brentsroot(f, [dtype(br[0]), dtype(br[1])], tol=case["tol"])
            # (e) agreement with the scalar solver -- on brackets with a sign change (without one the scalar solver answers with its
            #     documented (inf, False) sentinel while the vector solver certifies an end point; each is judged on its own below)
            fa_, fb_ = f(dtype(br[0])), f(dtype(br[1]))
            if not (np.sign(fa_) * np.sign(fb_) < 0):
                pass
            elif bool(oks[i]) != bool(oksc):
                r.v("C14/vector/flag-differs/%s" % fn, "the vectorised solver agrees component-wise with the scalar one (success flags)", cs,
                    observed=dict(vector=bool(oks[i]), scalar=bool(oksc), x_vec=float(xs[i]), x_scalar=float(xsc)), expected="identical flags")
            elif bool(oksc):
                scale_x = max(1.0, abs(float(xsc)))
                if abs(float(xs[i]) - float(xsc)) > 2 * max(tol_eff * scale_x, 4 * float(np.finfo(dtype).eps) * scale_x) and not (fn in ("sin", "cubic")):
                    r.v("C14/vector/point-differs/%s" % fn, "where both succeed the points agree within the tolerance", cs,
                        observed=dict(x_vec=float(xs[i]), x_scalar=float(xsc)), expected="within tolerance")
            judge(r, "C14/vector/%s" % fn, f, br[0], br[1], xs[i], bool(oks[i]), tol_eff, dtype, cs)
        r.out(("vector", case["dtype"], L, int(oks.sum())))
    r.samples.append(dict(section="vector", dtype=case["dtype"], tol=case["tol"], length=L, windows=len(range(0, len(items), max(1, L)))))
    return r


def options_case(case):
    """the other ways of calling the two solvers - return_interval, verbose, a tolerance below eps, one array-valued function instead of a list (with and without
    a mask argument), scalar bounds shared by a list of functions - must give the answer of the plain call (each answer is judged by the clauses above too)"""
    import contextlib
    import io
    opt, D = _imports()
    r = Res()
    dtype = DT[case["dtype"]]
    tol = case["tol"]
    tol_eff = eff_tol(tol, dtype, D)
    fn = case["fn"]
    brs = [b_ for b_ in BRACKETS if b_[2] == 0.3][:8]
    for s in case["scales"]:
        # ---- scalar solver
        for (a, b, rt) in BRACKETS:
            f = make_fn(fn, rt, s, dtype)
            cs = dict(section="options", dtype=case["dtype"], tol=tol, fn=fn, bracket=[a, b], root=rt, scale=s)
            x0, ok0 = opt.brentsroot(f, [dtype(a), dtype(b)], tol=tol)
            res1 = opt.brentsroot(f, [dtype(a), dtype(b)], tol=tol, return_interval=True)
            # (without a sign change the scalar solver answers with its (inf, False) sentinel and no interval, whatever return_interval says: observed, counted,
            #  not judged - the statement says nothing about the interval)
            x1, ok1, iv = res1 if len(res1) == 3 else (res1[0], res1[1], None)
            if iv is None:
                r.add("sentinel_without_interval")
            with contextlib.redirect_stdout(io.StringIO()):
                x2, ok2 = opt.brentsroot(f, [dtype(a), dtype(b)], tol=tol, verbose=True)
            x3, ok3 = opt.brentsroot(f, [dtype(a), dtype(b)], tol=(1e-30 if tol is None else tol))
            r.n += 4
            same = lambda u, v: (not np.isfinite(u) and not np.isfinite(v)) or float(u) == float(v)
            for label, xx, okk in (("return_interval", x1, ok1), ("verbose", x2, ok2), ("tol-below-eps", x3, ok3)):
                if not same(xx, x0) or bool(okk) != bool(ok0):
                    r.v("C14/options/scalar-%s/%s" % (label, fn), "an option that only changes what is reported does not change the answer", dict(cs, option=label),
                        observed=dict(plain=[float(x0), bool(ok0)], with_option=[float(xx), bool(okk)]), expected="identical")
                    break
            if np.isfinite(x0) and iv is not None:
                lo, hi = min(float(dtype(a)), float(dtype(b))), max(float(dtype(a)), float(dtype(b)))
                ia, ib = float(iv[0]), float(iv[1])
                if not (lo <= ia <= hi and lo <= ib <= hi and float(x1) in (ia, ib)):
                    r.v("C14/options/scalar-interval/%s" % fn, "the reported interval lies inside the bracket and has the returned point as an end", dict(cs, option="return_interval"),
                        observed=dict(interval=[ia, ib], x=float(x1), bracket=[a, b]), expected="inside, x at an end")
            judge(r, "C14/options/scalar/%s" % fn, f, a, b, x1, bool(ok1), tol_eff, dtype, cs)
        # ---- vector solver: one function family, a vector of brackets
        A = np.array([b_[0] for b_ in brs], dtype=dtype); B = np.array([b_[1] for b_ in brs], dtype=dtype)
        R = np.array([b_[2] for b_ in brs], dtype=dtype)
        S = np.array([s * (10.0 ** (i % 3 - 1)) for i in range(len(brs))], dtype=dtype)
        fs = [make_fn(fn, float(R[i]), float(S[i]), dtype) for i in range(len(brs))]
        fv = make_fn_vec(fn, R, S, dtype)
        calls = dict(interesting=[0])

        def f_plain(x):
            return fv(x)

        def f_mask_zero(x, mask=None):
            out = fv(x)
            return out if mask is None else np.where(mask, out, dtype(0))

        def f_mask_raw(x, mask=None):
            return fv(x)            # a mask-accepting function that evaluates everything anyway (allowed: masked entries are the solver's to ignore)
        x0, ok0 = opt.brentsrootvec(fs, [A.copy(), B.copy()], tol=tol)
        variants = [("array-function", lambda: opt.brentsrootvec(f_plain, [A.copy(), B.copy()], tol=tol)),
                    ("mask-zero-filled", lambda: opt.brentsrootvec(f_mask_zero, [A.copy(), B.copy()], tol=tol, accepts_mask=True)),
                    ("mask-not-filled", lambda: opt.brentsrootvec(f_mask_raw, [A.copy(), B.copy()], tol=tol, accepts_mask=True)),
                    ("return_interval", lambda: opt.brentsrootvec(fs, [A.copy(), B.copy()], tol=tol, return_interval=True)[:2]),
                    ("verbose", lambda: opt.brentsrootvec(fs, [A.copy(), B.copy()], tol=tol, verbose=True)),
                    ("tol-below-eps", lambda: opt.brentsrootvec(fs, [A.copy(), B.copy()], tol=(1e-30 if tol is None else tol)))]
        for label, call in variants:
            cs = dict(section="options", dtype=case["dtype"], tol=tol, fn=fn, scale=s, option=label)
            with contextlib.redirect_stdout(io.StringIO()):
                xv, okv = call()
            r.n += 1
            xv = np.asarray(xv); okv = np.asarray(okv)
            if xv.shape != x0.shape or okv.shape != ok0.shape:
                r.v("C14/options/vector-%s/%s" % (label, fn), "one point and one flag per component", cs, observed=dict(x=list(xv.shape), ok=list(okv.shape)), expected=list(x0.shape))
                continue
            for i, br in enumerate(brs):
                judge(r, "C14/options/vector-%s/%s" % (label, fn), fs[i], br[0], br[1], xv[i], bool(okv[i]), tol_eff, dtype, dict(cs, component=i, bracket=list(br[:2]), root=br[2]))
                sc_change = np.sign(fs[i](dtype(br[0]))) * np.sign(fs[i](dtype(br[1]))) < 0
                if sc_change and bool(okv[i]) != bool(ok0[i]):
                    r.v("C14/options/vector-%s/%s" % (label, fn), "every way of passing the functions gives the same flags", dict(cs, component=i, bracket=list(br[:2])),
                        observed=dict(list_call=bool(ok0[i]), this_call=bool(okv[i])), expected="identical")
                    break
        # ---- scalar bounds shared by a list of functions (same bracket for all)
        for (a, b, rt) in ((-1.0, 2.0, 0.3), (2.0, -1.0, 0.3)):
            fl = [make_fn(fn, rt + 0.125 * j, s, dtype) for j in range(3)]
            for bounds, label in (([dtype(a), dtype(b)], "0-d bounds"), ([np.array([a], dtype=dtype), np.array([b], dtype=dtype)], "one-element bounds")):
                xs, oks = opt.brentsrootvec(fl, bounds, tol=tol)
                r.n += 1
                xs = np.asarray(xs); oks = np.asarray(oks)
                cs = dict(section="options", dtype=case["dtype"], tol=tol, fn=fn, scale=s, option=label, bracket=[a, b])
                if xs.shape != (3,) or oks.shape != (3,):
                    r.v("C14/options/shared-bounds/%s" % fn, "one point and one flag per function", cs, observed=dict(x=list(xs.shape), ok=list(oks.shape)), expected=[3])
                    continue
                for j in range(3):
                    judge(r, "C14/options/shared-bounds/%s" % fn, fl[j], a, b, xs[j], bool(oks[j]), tol_eff, dtype, dict(cs, component=j, root=rt + 0.125 * j))
    r.out(("options", fn, case["dtype"], case["tol"]))
    return r


def make_fn_vec(name, R, S, dtype):
    """the same families as make_fn with one (root, scale) per component"""
    if name == "linear":
        return lambda x: S * (x - R)
    if name == "cubic":
        return lambda x: S * (x - R) ** 3
    if name == "quadratic":
        return lambda x: S * (x * x - R * R)
    if name == "exp":
        return lambda x: S * (np.exp(x) - np.exp(R))
    if name == "tanh":
        return lambda x: S * np.tanh(dtype(50) * (x - R))
    if name == "jump":
        return lambda x: S * np.where(x >= R, dtype(1), dtype(-1))
    if name == "sin":
        return lambda x: S * np.sin(dtype(3 * np.pi) * (x - R))
    raise KeyError(name)


def run_case(case):
    if case["section"] == "options":
        return options_case(case)
    return scalar_case(case) if case["section"] == "scalar" else vector_case(case)


def run(ctx):
    scales = [1e-6, 1e-3, 1.0, 1e3, 1e6, 1e9] if ctx.quick else [10.0 ** e for e in range(-6, 10)]
    ctx.rule = ("scalar: 7 functions (linear, flat cubic root, quadratic, exp, steep tanh, jump, multi-root sine) x 15 brackets (both orders, root interior / exactly at an end / absent, "
                "|x| > 4, narrow, wide with ends orders of magnitude away from the root) x %d scales x tol in {None, 1e-8, 1e-3} x 3 dtypes; vector: every window of length 1..16 (two strides) over the same enumeration, compared component-wise "
                "with the scalar solver; options: return_interval, verbose, tol below eps, one array-valued function (plain / mask-accepting, masked entries zero-filled or not), bounds shared by a list of functions - each against the plain call; distinct = distinct (solver, function, dtype, success, large-scale, bracket-order) classes" % len(scales))
    ctx.assumptions += ["'within the tolerance' = max(tol, 4 ulp) relative to max(1, |x|); tol below 4*eps is raised to 4*eps as documented in the solvers",
                        "for multi-root (sine) and flat (cubic) cases the vector and scalar solvers may legitimately stop at different certified points; flags must still agree"]
    cases = []
    for dn in DT:
        for tol in (None, 1e-8, 1e-3):
            if dn == "float32" and tol == 1e-8:
                continue
            cases.append(dict(section="scalar", dtype=dn, tol=tol, scales=scales))
            for L in range(1, 17):
                for stride in (1, 7):
                    if ctx.quick and dn != "float64" and L not in (1, 3, 16):
                        continue
                    cases.append(dict(section="vector", dtype=dn, tol=tol, length=L, stride=stride, scales=scales))
    for dn in DT:
        for tol in (None, 1e-3):
            for fn in FUNCS:
                cases.append(dict(section="options", dtype=dn, tol=tol, fn=fn, scales=[1e-6, 1.0, 1e6] if ctx.quick else scales[::2]))
    grid.pmap(run_case, cases, ctx, horizon=900, chunksize=1)


def replay(case):
    if case["section"] == "options":
        return options_case(dict(section="options", dtype=case["dtype"], tol=case["tol"], fn=case["fn"], scales=[case["scale"]]))
    if case["section"] == "scalar":
        return scalar_case(dict(section="scalar", dtype=case["dtype"], tol=case["tol"], scales=[case["scale"]]))
    return vector_case(dict(section="vector", dtype=case["dtype"], tol=case["tol"], length=case["length"], stride=case["stride"], scales=case["scales"]))
