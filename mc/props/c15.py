"""C15 — nonlinear system solvers only claim success at an actual solution."""
import numpy as np

from mc.core.ctx import Res
from mc.core import grid

LEVEL = "exploration"
DT = {"float64": np.float64, "longdouble": np.longdouble}


def _imports():
    from desolver.utilities import optimizer as opt
    from desolver import backend as D
    return opt, D


def system(name, shape, dtype):
    """returns F(x), J(x) (shape (*fshape, *xshape)), dict of guesses"""
    n = int(np.prod(shape)) if shape else 1
    idx = np.arange(1, n + 1, dtype=dtype).reshape(shape) if shape else dtype(1)

    def diagJ(d):
        d = np.asarray(d, dtype=dtype).reshape(n)
        return np.diag(d).reshape(tuple(shape) + tuple(shape)) if shape else np.asarray(d[0])
    if name == "sepquad":
        c = idx
        F = lambda x: x * x - c
        J = lambda x: diagJ(2 * x)
        g = dict(near=np.sqrt(c) * dtype(1.1), far=np.sqrt(c) * dtype(40.0) + dtype(3), singular=np.zeros_like(np.sqrt(c)))
    elif name == "coupled":
        def F(x):
            v = np.asarray(x, dtype=dtype).reshape(n)
            return (v * v + dtype(0.5) * np.roll(v, 1) - (np.arange(1, n + 1, dtype=dtype) + dtype(0.5))).reshape(np.shape(x))

        def J(x):
            v = np.asarray(x, dtype=dtype).reshape(n)
            M = np.diag(2 * v)
            for i in range(n):
                M[i, (i - 1) % n] += dtype(0.5)
            return M.reshape(tuple(shape) + tuple(shape)) if shape else np.asarray(M[0, 0])
        base = np.sqrt(np.arange(1, n + 1, dtype=dtype)).reshape(shape) if shape else dtype(1)
        g = dict(near=base * dtype(1.05), far=base * dtype(25.0), singular=np.zeros_like(base) - dtype(0.125))
    elif name == "trig":
        def F(x):
            v = np.asarray(x, dtype=dtype).reshape(n)
            return (np.sin(v) + dtype(0.5) * np.roll(v, -1) - dtype(0.3)).reshape(np.shape(x))

        def J(x):
            v = np.asarray(x, dtype=dtype).reshape(n)
            M = np.diag(np.cos(v))
            for i in range(n):
                M[i, (i + 1) % n] += dtype(0.5)
            return M.reshape(tuple(shape) + tuple(shape)) if shape else np.asarray(M[0, 0])
        z = np.zeros(shape, dtype=dtype) if shape else dtype(0)
        g = dict(near=z + dtype(0.2), far=z + dtype(7.5), singular=z + dtype(2.0943951023931953))   # cos = -0.5 cancels the coupling for n = 1
    elif name == "expremote":
        F = lambda x: np.exp(x) - dtype(1e-3)
        J = lambda x: diagJ(np.exp(x))
        z = np.zeros(shape, dtype=dtype) if shape else dtype(0)
        g = dict(near=z - dtype(6.5), far=z - dtype(20.0), singular=z - dtype(40.0))
    elif name == "cubic":
        F = lambda x: x * x * x
        J = lambda x: diagJ(3 * x * x)
        z = np.zeros(shape, dtype=dtype) if shape else dtype(0)
        g = dict(near=z + dtype(0.1), far=z + dtype(30.0), singular=z + dtype(1e-9))
    elif name == "rootless":
        F = lambda x: x * x + dtype(1)
        J = lambda x: diagJ(2 * x)
        z = np.zeros(shape, dtype=dtype) if shape else dtype(0)
        g = dict(near=z + dtype(0.1), far=z + dtype(30.0), singular=z)
    elif name == "atan":
        F = lambda x: np.arctan(x) - dtype(2)
        J = lambda x: diagJ(1 / (1 + x * x))
        z = np.zeros(shape, dtype=dtype) if shape else dtype(0)
        g = dict(near=z + dtype(3.0), far=z + dtype(300.0), singular=z - dtype(1e6))
    elif name == "cosh":
        # rootless with a smooth minimum of the residual (1 at x = 0.3): trust regions collapse there with steps far below any tolerance
        F = lambda x: np.cosh(x - dtype(0.3))
        J = lambda x: diagJ(np.sinh(x - dtype(0.3)))
        z = np.zeros(shape, dtype=dtype) if shape else dtype(0)
        g = dict(near=z + dtype(1.0), far=z + dtype(10.0), singular=z + dtype(0.3), g3=z - dtype(3.0), g5=z + dtype(5.0), g1=z + dtype(0.1), gm=z - dtype(10.0))
    elif name.startswith("stiff"):
        # well-conditioned but stiffly SCALED: F = S (A x + 0.1 sin x - b).  For large S the Newton step converges long before the residual is at the level of
        # the tolerance: a solver that takes a converged step for a solution claims a false success here
        S = dtype(float(name[5:]))
        ii = np.arange(n, dtype=np.float64)
        A = (2.0 * np.eye(n) + 0.3 * np.cos(np.add.outer(ii, 2.0 * ii)))
        xs = 0.5 * np.sin(1.0 + ii)
        bvec = A @ xs + 0.1 * np.sin(xs)
        Ad = A.astype(dtype); bd = bvec.astype(dtype)

        def F(x):
            v = np.asarray(x, dtype=dtype).reshape(n)
            return (S * (Ad @ v + dtype(0.1) * np.sin(v) - bd)).reshape(np.shape(x))

        def J(x):
            v = np.asarray(x, dtype=dtype).reshape(n)
            M = S * (Ad + np.diag(dtype(0.1) * np.cos(v)))
            return M.reshape(tuple(shape) + tuple(shape)) if shape else np.asarray(M[0, 0])
        base = xs.astype(dtype).reshape(shape) if shape else dtype(xs[0])
        g = dict(near=base + dtype(0.3), far=base + dtype(3.0), singular=base * dtype(0) , huge=None)
    else:
        raise KeyError(name)
    # a guess whose norm is orders of magnitude larger than the root's (scale-dependent tolerances must follow the iterate)
    g["huge"] = np.asarray(g["near"], dtype=dtype) * dtype(0) + dtype(1e6)
    return F, J, g


def relayout(F, J, shape, layout):
    """the same system with its residual returned in another layout than the unknown (same number of elements)"""
    n = int(np.prod(shape)) if shape else 1
    if layout == "flat":
        fshape = (n,)
    elif layout == "column":
        fshape = (n, 1)
    else:
        return F, J
    F2 = lambda x: np.reshape(F(x), fshape)
    J2 = lambda x: np.reshape(J(x), fshape + tuple(shape))
    return F2, J2


MULTIPLE = 30.0      # 'a modest multiple ... (scaled by problem size)': the solvers' own gates are 10 tol (n + ||x||); linear in n, so a gate in n^2 shows at n = 12
STIFF = ["stiff%g" % v for v in (1e3, 3e4, 1e5, 1.5e5, 2.2e5, 3.3e5, 5e5, 1e6, 1e7)]
SYSTEMS = ["sepquad", "coupled", "trig", "expremote", "cubic", "rootless", "atan"]
SHAPES = [[], [1], [2], [3], [6], [12], [2, 3]]


def solve_case(case):
    opt, D = _imports()
    r = Res()
    dtype = DT[case["dtype"]]
    shape = tuple(case["shape"])
    n = int(np.prod(shape)) if shape else 1
    F, J, guesses = system(case["system"], shape, dtype)
    F, J = relayout(F, J, shape, case.get("layout"))
    x0 = np.asarray(guesses[case["guess"]], dtype=dtype)
    tol = case["tol"]
    tol_eff = float(D.tol_epsilon(np.dtype(dtype))) if tol is None else tol
    jac = J if case["jac"] == "analytic" else None
    solver = case["solver"]
    r.n = 1
    kw = {}
    if case.get("bounds"):
        # the unknowns confined to a box (var_bounds): whatever the box does to the iteration, a reported success must be a solution
        lo, hi = case["bounds"]
        kw["var_bounds"] = (dtype(lo), dtype(hi))
        x0 = np.clip(x0, dtype(lo + 0.01 * (hi - lo)), dtype(hi - 0.01 * (hi - lo)))
    if case.get("verbose"):
        kw["verbose"] = True
    F_res = None
    if case.get("extra"):
        # the system is posed through the front-end's additional_args / additional_kwargs: F(x, c, k=0) = F0(x) + k c with k = 1 given by keyword (the default
        # k = 0 is ANOTHER system); a reported success must be a solution of the system the caller posed
        F0_, J0_ = F, J
        cvec = dtype(0.125)

        def F(x, c, k=0.0):
            return F0_(x) + k * c

        def J(x, c, k=0.0):
            return J0_(x)
        jac = J if case["jac"] == "analytic" else None
        kw["additional_args"] = (cvec,)
        kw["additional_kwargs"] = dict(k=dtype(1.0))
        F_res = lambda xl: np.asarray(system(case["system"], shape, np.longdouble)[0](xl), dtype=np.longdouble) + np.longdouble(0.125)
    import contextlib, io
    try:
      with contextlib.redirect_stdout(io.StringIO()):
        if solver == "nonlinear_roots":
            x, info = opt.nonlinear_roots(F, x0.copy(), jac=jac, tol=tol, **kw)
            success = bool(info[0])
        elif solver == "nonlinear_roots_builtin":
            # the front-end's built-in path (dogleg first, then the trust-region Newton) in double precision
            x, info = opt.nonlinear_roots(F, x0.copy(), jac=jac, tol=tol, use_scipy=False, **kw)
            success = bool(info[0])
        elif solver == "newtontrustregion":
            x, info = opt.newtontrustregion(F, x0.copy(), jac=jac, tol=tol, **kw)
            success = bool(info[0])
        elif solver == "hybrj":
            if shape == ():
                r.out(("skip", solver)); return r       # hybrj has no scalar wrapper of its own; reached through nonlinear_roots
            x, info = opt.hybrj(F, x0.copy(), jac, tol=tol, **kw)
            success = bool(info[0])
    except Exception as e:
        r.add("exceptions"); r.out(("exception", solver, case["system"], type(e).__name__))
        return r                                        # an exception is a reported failure
    key = "C15/%s/%s" % (solver, case["system"])
    if success:
        x = np.asarray(x)
        if x.shape != x0.shape:
            r.v(key + "/shape", "the result has the shape of the initial guess", case, observed=list(x.shape), expected=list(x0.shape))
            return r
        xl = np.asarray(x, dtype=np.longdouble)
        Fl, _, _ = system(case["system"], shape, np.longdouble)
        res = float(np.linalg.norm(np.asarray(Fl(xl) if F_res is None else F_res(xl), dtype=np.longdouble).reshape(-1)))
        bound = MULTIPLE * tol_eff * (n + float(np.linalg.norm(np.asarray(x, dtype=np.float64).reshape(-1))))
        if case["system"].startswith("stiff"):
            # the solver sees F through the working precision: its own evaluation of S (A x + 0.1 sin x - b) carries rounding of size eps S (|A||x| + |b| + 0.1),
            # below which no residual can be certified (tol = 1e-12 with S = 1e7 asks for less than that in float64)
            bound += 4 * n * float(np.finfo(dtype).eps) * float(case["system"][5:]) * 3.0
        if not np.all(np.isfinite(np.asarray(x, dtype=np.float64))) or not res <= bound:
            r.v(key + "/false-success", "success => the residual norm is below a modest multiple of the tolerance", case,
                observed=dict(residual=res, bound=bound, x=np.asarray(x, dtype=float).reshape(-1)[:4]), expected="||F(x)|| <= %g tol (n + ||x||)" % MULTIPLE)
    if success and case.get("bounds"):
        lo, hi = case["bounds"]
        xf = np.asarray(x, dtype=np.float64)
        if xf.min() < lo - 1e-9 * (hi - lo) or xf.max() > hi + 1e-9 * (hi - lo):
            r.add("success_outside_box")          # observed, not judged: the statement does not speak about the box
    r.out((solver, case["system"], case["dtype"], case["jac"], case["guess"], success, bool(case.get("bounds")), bool(case.get("verbose"))))
    if hash(str(case)) % 211 == 0:
        r.samples.append(dict(case=case, success=success))
    return r


def run(ctx):
    ctx.rule = ("full product 7 systems (separable quadratics, coupled polynomial, trigonometric, exponential with remote root, cubic with singular Jacobian at the root, two rootless) "
                "x shapes {(), (1,), (2,), (3,), (6,), (12,), (2,3)} x solvers {nonlinear_roots float64 = MINPACK path, nonlinear_roots longdouble = built-in dogleg then Newton, "
                "newtontrustregion, hybrj} x Jacobian {analytic, finite differences} x guesses {near, far, singular point, huge (1e6)} x residual layout {as the unknown, flat, column} x tol {1e-6, 1e-10, None}; "
                "distinct = distinct (solver, system, dtype, jacobian, guess, success) classes")
    ctx.assumptions += ["an exception counts as a reported failure", "residual re-evaluated in longdouble; bound 100*tol*(n + ||x||), tol None = the solvers' default 32 eps",
                        "systems are O(1)-scaled so a converged step and a small residual mean the same"]
    cases = []
    for sysn in SYSTEMS:
        for shp in SHAPES:
            for solver, dn in (("nonlinear_roots", "float64"), ("nonlinear_roots", "longdouble"), ("newtontrustregion", "float64"), ("hybrj", "float64"),
                               ("newtontrustregion", "longdouble"), ("hybrj", "longdouble")):
                if ctx.quick and dn == "longdouble" and solver != "nonlinear_roots" and shp not in ([2], [2, 3]):
                    continue
                for jac in ("analytic", "fd"):
                    if solver == "hybrj" and jac == "fd" and ctx.quick and shp not in ([2], [3]):
                        continue
                    for guess in ("near", "far", "singular", "huge"):
                        for tol in (1e-6, 1e-10, None):
                            if ctx.quick and shp in ([12], [6]) and jac == "fd" and tol is None:
                                continue
                            cases.append(dict(system=sysn, shape=shp, solver=solver, dtype=dn, jac=jac, guess=guess, tol=tol))
                            # the residual returned flat / as a column while the unknown is matrix- or vector-shaped
                            if tol == 1e-6 and guess in ("near", "far") and shp in ([2, 3], [3], [2]) and solver != "hybrj":
                                for lay in ("flat", "column"):
                                    if lay == "flat" and len(shp) == 1:
                                        continue
                                    cases.append(dict(system=sysn, shape=shp, solver=solver, dtype=dn, jac=jac, guess=guess, tol=tol, layout=lay))
    # the front-end's built-in path in double precision, and rootless systems from many starting points (a solver that stalls must say so)
    for sysn in ("cosh", "rootless", "atan", "sepquad", "trig"):
        for shp in ([1], [2], [2, 3]):
            for solver, dn in (("nonlinear_roots_builtin", "float64"), ("nonlinear_roots", "longdouble"), ("hybrj", "float64"), ("newtontrustregion", "float64"), ("nonlinear_roots", "float64")):
                for jac in ("analytic", "fd"):
                    if solver == "hybrj" and jac == "fd":
                        continue
                    for guess in (("near", "far", "singular", "g3", "g5", "g1", "gm") if sysn == "cosh" else ("near", "far", "singular")):
                        for tol in (None, 1e-10):
                            cases.append(dict(system=sysn, shape=shp, solver=solver, dtype=dn, jac=jac, guess=guess, tol=tol))
    # the other ways of calling the solvers: unknowns confined to a box (var_bounds; one box that holds the O(1) roots, one that excludes most of them), verbose
    for sysn in ("sepquad", "coupled", "trig", "cubic", "rootless", "atan", "cosh"):
        for shp in ([1], [2], [3], [2, 3]):
            for solver, dn in (("nonlinear_roots", "float64"), ("nonlinear_roots_builtin", "float64"), ("nonlinear_roots", "longdouble"), ("newtontrustregion", "float64"), ("hybrj", "float64")):
                for jac in ("analytic", "fd"):
                    if solver == "hybrj" and jac == "fd":
                        continue
                    for guess in ("near", "far"):
                        for opt_ in (dict(bounds=[-50.0, 50.0]), dict(bounds=[0.5, 50.0]), dict(bounds=[-3.0, 0.25]), dict(verbose=True)):
                            if ctx.quick and shp == [3] and "bounds" in opt_:
                                continue
                            cases.append(dict(system=sysn, shape=shp, solver=solver, dtype=dn, jac=jac, guess=guess, tol=1e-8, **opt_))
    # systems posed through additional_args / additional_kwargs of the front-end
    for sysn in ("sepquad", "coupled", "trig", "cubic"):
        for shp in ([1], [2], [2, 3]):
            for solver, dn in (("nonlinear_roots", "float64"), ("nonlinear_roots_builtin", "float64"), ("nonlinear_roots", "longdouble")):
                for jac in ("analytic", "fd"):
                    for guess in ("near", "far"):
                        cases.append(dict(system=sysn, shape=shp, solver=solver, dtype=dn, jac=jac, guess=guess, tol=1e-8, extra=True))
    # stiffly scaled systems: a converged step is not a small residual (all sizes; finite-difference and full user Jacobian; the solvers called directly and
    # the front-end on both dispatch paths)
    for sysn in STIFF:
        for shp in ([2], [3], [6], [12], [3, 4], [2, 3]):
            for solver, dn in (("newtontrustregion", "float64"), ("hybrj", "float64"), ("nonlinear_roots", "float64"), ("nonlinear_roots", "longdouble"), ("newtontrustregion", "longdouble")):
                for jac in ("analytic", "fd"):
                    if solver == "hybrj" and jac == "fd":
                        continue
                    for guess in ("near", "far"):
                        for tol in ((1e-9,) if ctx.quick else (1e-9, 1e-6, 1e-12)):
                            cases.append(dict(system=sysn, shape=shp, solver=solver, dtype=dn, jac=jac, guess=guess, tol=tol))
    grid.pmap(solve_case, cases, ctx, horizon=300)
    ctx.note("cases", total=len(cases))


def replay(case):
    return solve_case(case)
