"""C16 — Jacobians are the true derivative, from the user's function when one is given.
(a) exhaustive product over functions / points / base orders for the finite-difference JacobianWrapper
(b) E1 over jac / hook / unhook / assignment / call histories on a DiffRHS with a one-variable reference model
"""
import hashlib
import itertools

import numpy as np

from mc.core.ctx import Res
from mc.core import grid, explore

LEVEL = "model_checking"
EPS = float(np.finfo(np.float64).eps)


def _imports():
    import desolver as de
    from desolver.utilities import utilities as U
    return de, U


# ------------------------------------------------------------------ (a) finite-difference Jacobians
A32 = np.array([[1.5, -2.0], [0.25, 4.0], [-3.0, 0.5]])
B42 = np.array([[1.0, 2.0], [-0.5, 0.25], [3.0, -1.0], [0.0, 1.5]])
C32 = np.array([[2.0, -1.0], [0.5, 0.0], [-1.5, 1.0]])


def fd_function(name):
    """returns f, analytic jacobian with layout (*f.shape, *x.shape), input shape, linear?"""
    if name == "linear32":
        return (lambda x: A32 @ x), (lambda x: A32.copy()), (2,), True
    if name == "linear_matrix":
        # X (2,3) -> B X C  (4,2);  d(BXC)[i,j]/dX[k,l] = B[i,k] C[l,j]
        return (lambda X: B42 @ X @ C32), (lambda X: np.einsum("ik,lj->ijkl", B42, C32)), (2, 3), True
    if name == "scalar_tanh":
        return (lambda x: np.tanh(x)), (lambda x: np.asarray(1 - np.tanh(x) ** 2)), (), False
    if name == "smooth23":
        def f(x):
            return np.array([np.sin(x[0]) * x[1], np.exp(-x[1] * x[1] / (1 + x[0] * x[0])), x[0] * x[1] + np.cos(x[1])])

        def J(x):
            e = np.exp(-x[1] * x[1] / (1 + x[0] * x[0]))
            return np.array([[np.cos(x[0]) * x[1], np.sin(x[0])],
                             [e * (2 * x[0] * x[1] * x[1] / (1 + x[0] * x[0]) ** 2), e * (-2 * x[1] / (1 + x[0] * x[0]))],
                             [x[1], x[0] - np.sin(x[1])]])
        return f, J, (2,), False
    if name == "steep23":
        # steep in its second argument: a differencing step that is not chosen for THAT component (too long, or inherited from a large neighbour) is ruinous
        def f(x):
            return np.array([np.sin(40 * x[1]) + x[0], np.cos(25 * x[1]) + 1e-4 * x[0], x[0] * 1e-4 * x[1]])

        def J(x):
            return np.array([[1.0, 40 * np.cos(40 * x[1])], [1e-4, -25 * np.sin(25 * x[1])], [1e-4 * x[1], 1e-4 * x[0]]])
        return f, J, (2,), False
    if name == "even2":
        # even in its first argument: at x0 = 0 every central difference is exact (the refinement loop is done at once); everywhere else it is not
        return ((lambda x: np.array([np.cos(3.0 * x[0]) + x[1], x[0] * x[1]])),
                (lambda x: np.array([[-3.0 * np.sin(3.0 * x[0]), 1.0], [x[1], x[0]]])), (2,), False)
    if name in ("pend2", "chain3"):
        # second-order equations written as first-order systems: structural zeros and constant entries beside ONE nonlinear entry whose truncation error takes
        # either sign along the lattice of evaluation points (a refinement loop that looks at a signed or a mixed quantity stops early on one of the signs)
        if name == "pend2":
            return ((lambda x: np.array([x[1], -5.0 * np.sin(5.0 * x[0])])),
                    (lambda x: np.array([[0.0, 1.0], [-25.0 * np.cos(5.0 * x[0]), 0.0]])), (2,), False)

        def f(x):
            return np.array([x[1], x[2], -np.exp(-x[0]) * np.sin(4.0 * x[0]) - 0.5 * x[2]])

        def J(x):
            d = np.exp(-x[0]) * np.sin(4.0 * x[0]) - 4.0 * np.exp(-x[0]) * np.cos(4.0 * x[0])
            return np.array([[0.0, 1.0, 0.0], [0.0, 0.0, 1.0], [d, 0.0, -0.5]])
        return f, J, (3,), False
    if name == "smooth_matrix":
        # X (2,2) -> sin(X) @ X : d/dX[k,l] of sum_m sin(X[i,m]) X[m,j]
        def f(X):
            return np.sin(X) @ X

        def J(X):
            out = np.zeros((2, 2, 2, 2))
            for i, j, k, l in itertools.product(range(2), repeat=4):
                v = 0.0
                if i == k:
                    v += np.cos(X[i, l]) * X[l, j]
                if l == j:
                    v += np.sin(X[i, k])
                out[i, j, k, l] = v
            return out
        return f, J, (2, 2), False
    raise KeyError(name)


POINT_VALUES = [1e-8, 0.3, 5.0, 1e4]


def fd_case(case):
    de, U = _imports()
    r = Res()
    f, J, shape, linear = fd_function(case["fn"])
    n = int(np.prod(shape)) if shape else 1
    adaptive = case.get("adaptive", True)
    # (non-adaptive mode differences a tiny component with a step relative to it, so its round-off is eps |f| / (dy |x_j|), not 'to rounding': tiny components
    #  belong to the adaptive cells; the non-adaptive ones mix zero, O(1) and large components in every order)
    pts = list(itertools.product(POINT_VALUES if adaptive else ([0.0, 0.3, 0.75, 5.0, 1e4] + []), repeat=min(n, 2)))
    # (no tiny components in non-adaptive mode: there a component of 1e-8 is differenced with a step relative to it (3e-16), and next to an O(1) component the
    #  round-off eps |f| / h is O(0.1) even for a linear map, with any number of refinements.  The statement speaks of 'the accuracy its tolerances request':
    #  it is read for the default adaptive mode; the non-adaptive cells only check what that mode can deliver)
    if case["fn"] == "steep23":
        pts = list(itertools.product([0.0, 0.3, 5.0, 4096.0, 1e4], [0.3, 0.75, -0.6]))       # the steep argument stays O(1); its neighbour takes every size
    if case["fn"] in ("pend2", "chain3"):
        pts = [(-1.5 + 0.125 * k, v) for k in range(25) for v in (0.3, -2.0)]          # the nonlinear argument along a lattice of 25 points
    if case["fn"] == "even2":
        pts = [(0.0, 0.3), (0.4, 0.3), (0.0, -2.0), (-1.1, 0.7), (0.0, 0.3), (0.9, -0.5)]     # the easy point first, then generic ones
    shared = None
    for pv in pts:
        vals = [pv[i % len(pv)] * (1 if i % 3 else -1) * (1 + 0.125 * (i // 2)) for i in range(n)]
        if case["fn"] in ("pend2", "chain3", "even2"):
            vals = [pv[0]] + [pv[1] * (1 + 0.5 * i) for i in range(n - 1)]
        x = np.array(vals, dtype=np.float64).reshape(shape) if shape else np.float64(vals[0])
        kw = dict(base_order=case["order"], flat=case["flat"])
        if not linear:
            kw.update(atol=case["tol"], rtol=case["tol"])
        if not adaptive:
            kw.update(adaptive=False)         # fixed number of Richardson refinements, per-component choice of the differencing step
            if case.get("riter") is not None:
                kw.update(richardson_iter=case["riter"])
        if case.get("reuse"):
            # ONE wrapper object answers every point of the case, in this order: what it learnt at an earlier point (the depth at which the refinement
            # converged there) is not a setting for the next one
            if shared is None:
                shared = U.JacobianWrapper(f, **kw)
            jw = shared
        else:
            jw = U.JacobianWrapper(f, **kw)
        got = np.asarray(jw(x))
        want = np.asarray(J(x))
        fshape = np.shape(f(x))
        r.n += 1
        cs = dict(section="fd", fn=case["fn"], order=case["order"], flat=case["flat"], tol=case["tol"], x=np.asarray(x, dtype=float).reshape(-1))
        if case.get("reuse"):
            cs["reuse"] = True
        if not adaptive:
            cs["adaptive"] = False
            cs["riter"] = case.get("riter")
        exp_shape = (int(np.prod(fshape)) if fshape else 1, n) if case["flat"] else tuple(fshape) + tuple(shape)
        if case["flat"] and exp_shape == (1, 1):
            exp_shape = ()
        if got.shape != exp_shape:
            r.v("C16/fd-shape/%s" % case["fn"], "entry [i..., j...] is the derivative of output i with respect to input j (layout)", cs, observed=list(got.shape), expected=list(exp_shape))
            continue
        wantl = want.reshape(exp_shape)
        scale = float(np.max(np.abs(want))) + 1e-300
        if linear:
            tol = 1e5 * EPS * scale * max(1.0, float(np.max(np.abs(x)))) + 1e-300     # no truncation error; round-off of differencing eps*|f|*sum|w|/dy
        else:
            # 'near the accuracy its tolerances request': 100 x (rtol |J| + atol), floor at the round-off level of differencing f
            fmag = float(np.max(np.abs(f(x)))) + 1.0
            tol = 100 * (case["tol"] * scale + case["tol"]) + 1e5 * EPS * fmag * max(1.0, float(np.max(np.abs(x))))
            if not adaptive:
                # no tolerance is enforced in this mode; the fixed refinement ladder reaches 1e-12 on these functions (a wrong step is off by 1e-5 .. 1e200)
                tol = max(tol, 1e-7 * (scale + 1.0) + 1e-9 * fmag)
        if linear and not adaptive:
            # (the fixed refinement ladder goes on halving the step: the round-off eps |f| / h of differencing reaches 1e-9 |f|)
            tol = max(tol, 1e-7 * (scale + 1.0) + 1e-9 * (float(np.max(np.abs(f(x)))) + 1.0))
        err = float(np.max(np.abs(got - wantl)))
        if not err <= tol:
            r.v("C16/fd-value/%s" % case["fn"], "finite-difference Jacobian agrees with the analytic Jacobian", cs,
                observed=dict(err=err, tol=tol, worst_entry=[int(i) for i in np.unravel_index(int(np.argmax(np.abs(got - wantl))), got.shape)] if got.shape else []), expected="<= tol")
    r.out(("fd", case["fn"], case["order"], case["flat"]))
    r.samples.append(dict(section="fd", case=case, points=len(pts)))
    return r


# ------------------------------------------------------------------ (b) DiffRHS histories
M_T = np.array([[0.0, 1.0, 0.5], [-2.0, 0.25, 0.0], [0.75, -1.0, 0.125]])
Y_A = np.array([0.5, -1.0, 0.25])
Y_B = np.array([-0.75, 0.3, 1.5])
T_A, T_B = 0.0, 1.75
T_C = 2.5e-9          # a quarter period of the fast term of the right-hand side away from T_A: 'another time', however close


AMP = 2.0       # a constant of the system, passed by keyword on every request; the functions' own default (1.0) is wrong on purpose: a constant that does
                # not arrive at the user's function changes every answer by a factor of two


def user_rhs(t, y, amp=1.0, **kw):
    # time dependent, non-symmetric Jacobian:  f = amp ((1 + t) M y + sin(t) y^2)     (the state may be a (3,) vector or a (3, 1) column)
    shp = np.shape(y)
    y = np.reshape(y, (-1,))
    return np.reshape(amp * ((1 + t) * (M_T @ y) + np.sin(t) * y * y + np.cos(2 * np.pi * 1e8 * t) * y), shp)


def analytic_jac(t, y, amp=AMP):
    shp = np.shape(y)
    y = np.reshape(y, (-1,))
    return np.reshape(amp * ((1 + t) * M_T + np.diag(2 * np.sin(t) * y) + np.cos(2 * np.pi * 1e8 * t) * np.eye(3)), shp + shp)


def J1(t, y, amp=1.0, **kw):
    return analytic_jac(t, y, amp) + 100.0          # distinguishable from the truth and from J2


def J2(t, y, amp=1.0, **kw):
    return analytic_jac(t, y, amp) - 7.0


class WithAttr(object):
    """a right-hand side that carries its own jac attribute"""

    def __call__(self, t, y, **kw):
        return user_rhs(t, y, **kw)

    def jac(self, t, y, amp=1.0, **kw):
        return analytic_jac(t, y, amp) + 55.0


def J3(t, y, amp=1.0, **kw):
    return analytic_jac(t, y, amp) + 55.0


# (a fourth entry of a jac request is ANOTHER value of the system's constant for that request: a parameter scan of the Jacobian at a fixed time and state)
OPS = [("jac", "A", "A"), ("jac", "B", "A"), ("jac", "A", "B"), ("jac", "B", "B"), ("jac", "C", "A"), ("jac", "C", "B"), ("hook", 1), ("hook", 2), ("unhook",), ("assign", 1), ("call",),
       ("setattr",), ("delattr",), ("jac", "B", "A", 3.0), ("jac", "A", "A", 3.0), ("setorder", 3)]


def build_rhs(cfg):
    de, U = _imports()
    cnt = dict(n=0)
    if cfg["attr"]:
        base = WithAttr()

        def counted(t, y, **kw):
            cnt["n"] += 1
            return base(t, y, **kw)
        counted.jac = base.jac
        rhs = de.DiffRHS(counted)
    else:
        def counted(t, y, **kw):
            cnt["n"] += 1
            return user_rhs(t, y, **kw)
        rhs = de.DiffRHS(counted)
    return rhs, cnt


def step16(cfg, hist):
    de, U = _imports()
    r = Res()
    rhs, cnt = build_rhs(cfg)
    # reference model: a hooked function wins; otherwise the source is chosen when the wrapper (re)initialises itself -- at the first jac request
    # or at the first request after unhook -- from whether the user's function carries a jac attribute AT THAT MOMENT
    hooked = None                 # None | 1 | 2
    attr_present = bool(cfg["attr"])
    source = None                 # None (not initialised) | "attr" | "fd"
    requests = 0
    case = dict(cfg, hist=[list(o) for o in hist])
    r.n = 1
    for i, op in enumerate(hist):
        last = i == len(hist) - 1
        try:
            if op[0] == "jac":
                t = T_A if op[1] == "A" else (T_B if op[1] == "B" else T_C)
                y = Y_A if op[2] == "A" else Y_B
                if cfg.get("column"):
                    y = y.reshape(3, 1)               # a matrix-shaped state: the layout of the answer is (*shape, *shape)
                requests += 1
                amp = op[3] if len(op) > 3 else AMP
                got = np.asarray(rhs.jac(t, y, amp=amp))
                if hooked is None and source is None:
                    source = "attr" if attr_present else "fd"
                attached = hooked if hooked is not None else source
                if last:
                    if attached in (1, 2):
                        want = (J1 if attached == 1 else J2)(t, y, amp=amp)
                        exact = True
                    elif attached == "attr":
                        want = analytic_jac(t, y, amp) + 55.0; exact = True
                    else:
                        want = analytic_jac(t, y, amp); exact = False
                    if got.shape != want.shape:
                        r.v("C16/rhs-jac-shape", "Jacobian layout", case, observed=list(got.shape), expected=list(want.shape))
                    elif exact and not np.array_equal(got, want):
                        r.v("C16/rhs-jac-not-user", "the wrapper returns the user-supplied Jacobian whenever one is attached", case,
                            observed=dict(max_diff=float(np.max(np.abs(got - want))), model=str((hooked, source, attr_present))), expected="exactly the attached function's value")
                    elif not exact and float(np.max(np.abs(got - want))) > 1e-6 * (1 + float(np.max(np.abs(want)))):
                        r.v("C16/rhs-jac-stale", "without a user Jacobian the right-hand side is differentiated at the requested time and state", case,
                            observed=dict(max_diff=float(np.max(np.abs(got - want))), t=t), expected="analytic Jacobian at this (t, y)")
            elif op[0] == "hook":
                rhs.hook_jacobian_call(J1 if op[1] == 1 else J2); hooked = op[1]
            elif op[0] == "unhook":
                rhs.unhook_jacobian_call(); hooked = None; source = None
            elif op[0] == "assign":
                rhs.jac = J1; hooked = 1
            elif op[0] == "setattr":
                rhs.rhs.jac = J3; attr_present = True          # attach by attribute on the user's own function
            elif op[0] == "delattr":
                if hasattr(rhs.rhs, "jac"):
                    del rhs.rhs.jac
                attr_present = False
            elif op[0] == "setorder":
                rhs.set_jac_base_order(op[1])       # another order of the finite differences: what is attached, and for which time, stays as it was
            elif op[0] == "call":
                got = np.asarray(rhs(T_B, Y_B, amp=AMP))
                if last and not np.array_equal(got, user_rhs(T_B, Y_B, amp=AMP)):
                    r.v("C16/call", "calling the wrapper evaluates the user's right-hand side", case, observed=got.tolist(), expected=user_rhs(T_B, Y_B, amp=AMP).tolist())
        except Exception as e:
            r.v("C16/rhs-op-raises/%s" % op[0], "jac / hook / unhook sequences are served", dict(case, failing_op=i), observed=repr(e)[:200], expected="no exception")
            r.ret = None
            return r
    if int(rhs.njev) != requests:
        r.v("C16/njev", "njev counts the Jacobian requests", case, observed=dict(njev=int(rhs.njev), requests=requests), expected="equal")
    if int(rhs.nfev) != cnt["n"]:
        r.v("C16/nfev", "nfev counts the calls of the user's right-hand side (incl. those made for finite differences)", case, observed=dict(nfev=int(rhs.nfev), calls=cnt["n"]), expected="equal")
    h = hashlib.sha1()
    for k in sorted(rhs.__dict__):
        v = rhs.__dict__[k]
        if k.endswith("__jac"):
            h.update(("%s=%s" % (k, "J1" if v is J1 else "J2" if v is J2 else type(v).__name__)).encode())
        elif k.endswith("rhs") or k.endswith("repr"):
            continue
        else:
            h.update(("%s=%r" % (k, v)).encode())
    r.ret = h.hexdigest() + str((hooked, source, attr_present))
    r.out(("rhs", cfg["attr"], tuple(o[0] for o in hist)))
    if len(hist) == 3 and hash(str(case)) % 37 == 0:
        r.samples.append(dict(section="rhs", history=case["hist"], model=str((hooked, source, attr_present)), njev=int(rhs.njev), nfev=int(rhs.nfev)))
    return r


def run(ctx):
    depth = 4 if ctx.quick else 5
    ctx.rule = ("(a) full product 8 functions (non-square linear, matrix-shaped linear, scalar, smooth vector, steep, smooth matrix-valued, two second-order systems in first-order form along a 25-point lattice) x evaluation points with components in "
                "{1e-8, 0.3, 5, 1e4} x base_order {2,3,5,7} x flat on/off x tolerance; (b) E1 breadth-first search to depth %d over {jac(t_a|t_b, y_a|y_b), hook(J1), hook(J2), unhook, "
                "rhs.jac = J1, plain call, set / delete a jac attribute on the user's function, set_jac_base_order} on a DiffRHS (with and without a jac attribute on the user's function), reference model = one variable 'attached'; "
                "distinct = distinct (section, function/op history) classes" % depth)
    ctx.assumptions += ["linear maps: round-off of differencing only, 1e5*eps*|A||x|; smooth: 100*(rtol|J| + atol) plus the round-off floor 1e5*eps*|f||x| of differencing",
                        "without a user Jacobian the DiffRHS answer must be within 1e-6 relative of the analytic Jacobian at the requested (t, y)"]
    if not ctx.only or "fd" in ctx.only:
        cases = [dict(fn=fn, order=o, flat=fl, tol=tol) for fn in ("linear32", "linear_matrix", "scalar_tanh", "smooth23", "steep23", "smooth_matrix", "pend2", "chain3")
                 for o in (2, 3, 5, 7) for fl in (False, True) for tol in ((1e-8,) if ctx.quick else (1e-6, 1e-8, 1e-10))]
        cases += [dict(fn=fn, order=o, flat=fl, tol=tol, reuse=True) for fn in ("even2", "smooth23", "pend2", "scalar_tanh") for o in (2, 3, 5) for fl in (False, True) for tol in (1e-8, 1e-10)]
        cases += [dict(fn="even2", order=o, flat=False, tol=1e-8) for o in (2, 3, 5, 7)]
        cases += [dict(fn=fn, order=o, flat=fl, tol=1e-8, adaptive=False) for fn in ("linear32", "linear_matrix", "smooth23", "steep23", "smooth_matrix") for o in (2, 3, 5) for fl in (False, True)]
        grid.pmap(fd_case, cases, ctx, section="fd", horizon=600, chunksize=1)
    if not ctx.only or "rhs" in ctx.only:
        def ops_fn(cfg, hist):
            return OPS
        explore.bfs(ctx, [dict(attr=False), dict(attr=True), dict(attr=False, column=True)], ops_fn, step16, depth, section="rhs", horizon=300)


def replay(case):
    if case.get("section") == "fd":
        return fd_case({k: case[k] for k in ("fn", "order", "flat", "tol", "reuse", "adaptive", "riter") if k in case})
    cfg = {k: case[k] for k in ("attr", "column") if k in case}
    return step16(cfg, tuple(tuple(o) for o in case["hist"]))
