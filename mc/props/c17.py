"""C17 — interval lookup (scalar + vector bisection) and cubic Hermite primitives, exhaustively on small lattices."""
import itertools

import numpy as np

from mc.core.ctx import Res
from mc.core import grid

LEVEL = "exploration"
K = 64.0
DTYPES = {"float32": np.float32, "float64": np.float64, "longdouble": np.longdouble}


def _imports():
    import desolver as de
    from desolver.utilities import utilities as U
    from desolver.utilities.interpolation import CubicHermiteInterp
    return de, U, CubicHermiteInterp


# ------------------------------------------------------------------ bisection
GRID9 = [-2.0, -1.5, -1.0, -0.5, 0.0, 0.5, 1.0, 1.5, 2.0]


def queries():
    q = [-3.0, -2.25]
    for a, b in zip(GRID9[:-1], GRID9[1:]):
        q += [a, (a + b) / 2]
    q += [GRID9[-1], 2.25, 3.0]
    return q  # 21 points


def bisect_case(case):
    de, U, _ = _imports()
    r = Res()
    dt = DTYPES[case["dtype"]] if case["dtype"] != "list" else None
    qs = queries()
    n = case["length"]
    for combo in itertools.combinations(GRID9, n):
        if dt is None:
            arr = list(combo)
            qarr = qs
            ref_arr = np.array(combo)
        else:
            arr = np.array(combo, dtype=dt)
            qarr = np.array(qs, dtype=dt)
            ref_arr = arr
        expect = np.minimum(np.searchsorted(ref_arr, np.array(qs), side="left"), n - 1)
        got_s = []
        for q in qarr:
            got_s.append(int(U.search_bisection(arr, q)))
        r.n += len(qs)
        got_s = np.array(got_s)
        if not np.array_equal(got_s, expect):
            i = int(np.nonzero(got_s != expect)[0][0])
            r.v("C17/bisection/scalar", "index of first element not smaller than the query (clipped)",
                dict(section="bisect", dtype=case["dtype"], length=n, array=list(combo), query=qs[i]),
                observed=int(got_s[i]), expected=int(expect[i]))
        got_v = np.asarray(U.search_bisection_vec(arr if dt is not None else np.array(arr), qarr if dt is not None else np.array(qarr)))
        r.n += 1
        if not np.array_equal(got_v, expect):
            i = int(np.nonzero(got_v != expect)[0][0])
            r.v("C17/bisection/vector", "vector search equals scalar specification",
                dict(section="bisect", dtype=case["dtype"], length=n, array=list(combo), query=qs[i]),
                observed=int(got_v[i]), expected=int(expect[i]))
        # single-element and permuted query vectors (vector search must not depend on the other queries)
        got_v1 = np.array([int(np.asarray(U.search_bisection_vec(np.asarray(arr), np.asarray([q], dtype=dt)))[0]) for q in qs[::4]])
        r.n += len(qs[::4])
        if not np.array_equal(got_v1, expect[::4]):
            i = int(np.nonzero(got_v1 != expect[::4])[0][0])
            r.v("C17/bisection/vector-single", "vector search with one query",
                dict(section="bisect", dtype=case["dtype"], length=n, array=list(combo), query=qs[::4][i]),
                observed=int(got_v1[i]), expected=int(expect[::4][i]))
        r.out(("bisect", case["dtype"], n, tuple(sorted(set(expect.tolist())))))
    r.samples.append(dict(section="bisect", dtype=case["dtype"], length=n, arrays=len(list(itertools.combinations(GRID9, n))), queries=len(qs)))
    return r


def mixed_case(case):
    """queries of ANOTHER float type than the array searched, at values the array's type cannot hold (the neighbours, in the query's type, of every
    element), laid out along 1, 2 and 3 axes: the index is decided by the exact values of both, and the vector search agrees with the scalar one."""
    de, U, _ = _imports()
    r = Res()
    da, dq = DTYPES[case["adtype"]], DTYPES[case["qdtype"]]
    n = case["length"]
    LDt = np.longdouble
    for combo in itertools.combinations(GRID9[::2] + [0.5], n) if n > 1 else [(v,) for v in GRID9[::2]]:
        combo = tuple(sorted(combo))
        arr = np.array(combo, dtype=da)
        qs = []
        for e in arr:
            eq = dq(e)
            qs += [eq, np.nextafter(eq, dq(np.inf)), np.nextafter(eq, dq(-np.inf))]
        qs += [dq(-3), dq(3), dq(0.25), dq(0.1), dq(-0.7)]
        qarr = np.array(qs, dtype=dq)
        al = arr.astype(LDt)
        expect = np.array([min(int(np.sum(al < LDt(q))), n - 1) for q in qarr])
        got_s = np.array([int(U.search_bisection(arr, q)) for q in qarr])
        r.n += len(qarr)
        ctxd = dict(section="mixed", adtype=case["adtype"], qdtype=case["qdtype"], length=n, array=[float(v) for v in combo])
        if not np.array_equal(got_s, expect):
            i = int(np.nonzero(got_s != expect)[0][0])
            r.v("C17/bisection/scalar-mixed-types", "index of first element not smaller than the query (clipped), query of another float type",
                dict(ctxd, query=repr(qarr[i])), observed=int(got_s[i]), expected=int(expect[i]))
        for lay in ("1d", "2d", "3d"):
            m = len(qarr)
            if lay == "1d":
                Q, E = qarr, expect
            elif lay == "2d":
                Q, E = np.concatenate([qarr, qarr[:m % 2]]).reshape(2, -1), np.concatenate([expect, expect[:m % 2]]).reshape(2, -1)
            else:
                pad = (-m) % 4
                Q, E = np.concatenate([qarr, qarr[:pad]]).reshape(2, 2, -1), np.concatenate([expect, expect[:pad]]).reshape(2, 2, -1)
            r.n += 1
            try:
                got = np.asarray(U.search_bisection_vec(arr, Q.copy()))
            except Exception as e:
                r.v("C17/bisection/vector-mixed-types", "vector search accepts query arrays of any layout", dict(ctxd, layout=lay), observed=repr(e)[:200], expected="indices")
                continue
            if got.shape != E.shape or not np.array_equal(got, E):
                bad = None if got.shape != E.shape else tuple(int(v) for v in np.argwhere(got != E)[0])
                r.v("C17/bisection/vector-mixed-types", "vector search equals the scalar specification for queries of another float type / layout",
                    dict(ctxd, layout=lay, query=None if bad is None else repr(Q[bad])),
                    observed=list(got.shape) if bad is None else int(got[bad]), expected=list(E.shape) if bad is None else int(E[bad]))
    r.out(("mixed", case["adtype"], case["qdtype"], n))
    return r


KNOTSETS = [[2.0, 1.25, 0.5, 0.0, -0.75, -1.5, -2.0], [-0.5, -1.0, -2.5], [3.0, 2.5, 1.0, 0.25], [1.0, 0.0], [1.0, 0.5, -0.5],
            [-2.0, -1.5, -0.75, 0.0, 0.5, 1.25, 2.0], [0.25, 1.0, 2.5, 3.0], [0.0, 1.0]]


def knots_case(case):
    """a dense solution assembled piece by piece the way a run does it (forward: appended, backward in time: prepended), from cubic pieces that are continuous
    in value but KINK at every knot: the scalar and the array-valued lookups must pick the same piece for every query - on the knots, one unit in the
    last place beside them, between them and outside - and evaluate to the same values and slopes."""
    de, U, _ = _imports()
    from desolver.utilities.interpolation import CubicHermiteInterp
    r = Res()
    dt = DTYPES[case["dtype"]]
    knots = [dt(k) for k in KNOTSETS[case["set"]]]
    from desolver.differential_system import DenseOutput
    sol = DenseOutput(None, None)
    val = lambda t: np.array([np.sin(float(t)), 0.5 * float(t)], dtype=dt)
    for i in range(len(knots) - 1):
        t0, t1 = knots[i], knots[i + 1]
        m0 = np.array([1.0 + i, -0.5 * i], dtype=dt); m1 = np.array([-2.0 + 0.25 * i, 0.75 + i], dtype=dt)      # slopes differ from piece to piece
        sol.add_interpolant(t1, CubicHermiteInterp(t0, t1, val(t0), val(t1), m0, m1))
    qs = []
    for k in knots:
        qs += [k, np.nextafter(k, dt(np.inf)), np.nextafter(k, dt(-np.inf))]
    for a, b in zip(knots[:-1], knots[1:]):
        qs += [a + (b - a) * dt(0.5), a + (b - a) * dt(0.125)]
    lo, hi = min(knots), max(knots)
    qs += [lo - dt(1), hi + dt(1)]
    qarr = np.array(qs, dtype=dt)
    r.n = len(qs)
    ctxd = dict(section="knots", dtype=case["dtype"], set=case["set"], knots=[float(k) for k in knots])
    try:
        idx_s = np.array([int(sol.find_interval(q)) for q in qarr])
        idx_v = np.asarray(sol.find_interval_vec(qarr.copy()))
        if not np.array_equal(idx_s, idx_v):
            i = int(np.nonzero(idx_s != idx_v)[0][0])
            r.v("C17/dense-lookup/index", "scalar and array-valued lookups of a dense solution pick the same piece", dict(ctxd, query=float(qarr[i])), observed=dict(scalar=int(idx_s[i]), vector=int(idx_v[i])), expected="equal")
        for layout in ("1d", "2d"):
            Q = qarr if layout == "1d" else np.concatenate([qarr, qarr[:len(qarr) % 2]]).reshape(2, -1)
            for nm, fn in (("value", sol.__call__), ("slope", sol.grad)):
                import io, contextlib
                with contextlib.redirect_stdout(io.StringIO()):
                    got = np.asarray(fn(Q.copy()))
                    want = np.stack([np.asarray(fn(q)) for q in Q.reshape(-1)]).reshape(Q.shape + (2,))
                r.n += 1
                if got.shape != want.shape or not np.array_equal(got, want):
                    bad = None if got.shape != want.shape else tuple(int(v) for v in np.argwhere(np.any(got != want, axis=-1))[0])
                    r.v("C17/dense-lookup/%s" % nm, "array-valued evaluation of a dense solution equals the evaluation one query at a time", dict(ctxd, layout=layout, query=None if bad is None else float(Q[bad])),
                        observed=(list(got.shape) if bad is None else got[bad].tolist()), expected=(list(want.shape) if bad is None else want[bad].tolist()))
    except Exception as e:
        r.v("C17/dense-lookup/raises", "lookups of an assembled dense solution are served", ctxd, observed=repr(e)[:200], expected="values")
    r.out(("knots", case["dtype"], case["set"], knots[0] > knots[-1]))
    return r


# ------------------------------------------------------------------ Hermite
LAT5 = [-1.5, -0.5, 0.0, 0.75, 2.0]
FAR_INTERVALS = [(1000.0, 1000.003), (1000.003, 1000.0), (-250.3, -250.31), (-250.31, -250.3), (4096.1, 4096.7), (33.3, 33.1)]
CUBICS = [(1, 0, 0, 0), (0, 1, 0, 0), (0, 0, 1, 0), (0, 0, 0, 1), (1, -2, 0.5, 3), (-0.25, 1, 1, -1), (2, 0, -3, 0.5)]


def evalpts(t0, t1):
    lo, hi = min(t0, t1), max(t0, t1)
    w = hi - lo
    pts = [lo + w * k / 16 for k in range(-10, 27)]  # 37 points, inside and outside
    return pts


def hermite_case(case):
    de, U, CH = _imports()
    r = Res()
    dt = DTYPES[case["dtype"]]
    eps = float(np.finfo(dt).eps)
    shape = tuple(case["shape"])
    co = case["cubic"]

    def poly(t):
        return co[0] + t * (co[1] + t * (co[2] + t * co[3]))

    def dpoly(t):
        return co[1] + t * (2 * co[2] + t * 3 * co[3])

    def abspoly(t):
        t = abs(t)
        return abs(co[0]) + t * (abs(co[1]) + t * (abs(co[2]) + t * abs(co[3])))
    scale = (np.arange(1, 1 + int(np.prod(shape or (1,))), dtype=np.longdouble).reshape(shape) if shape else np.longdouble(1))
    for t0, t1 in itertools.permutations(LAT5, 2):
        LD = np.longdouble
        d = LD(t1) - LD(t0)
        p0, p1 = poly(LD(t0)) * scale, poly(LD(t1)) * scale
        m0, m1 = dpoly(LD(t0)) * scale, dpoly(LD(t1)) * scale
        c = CH(dt(t0), dt(t1), np.asarray(p0, dtype=dt), np.asarray(p1, dtype=dt), np.asarray(m0, dtype=dt), np.asarray(m1, dtype=dt))
        cs = dict(section="hermite", dtype=case["dtype"], shape=list(shape), cubic=list(co), t0=t0, t1=t1)
        # end values and end slopes
        ends = [(c(dt(t0)), p0, "p0"), (c(dt(t1)), p1, "p1"), (c.grad(dt(t0)), m0, "m0"), (c.grad(dt(t1)), m1, "m1")]
        for got, want, nm in ends:
            r.n += 1
            got = np.asarray(got, dtype=LD)
            if got.shape != np.shape(want) or np.any(np.abs(got - np.asarray(want, dtype=dt).astype(LD)) > 16 * eps * (np.abs(want) + 1e-300)):
                r.v("C17/hermite/end-%s" % nm, "end values and end slopes reproduced", cs, observed=got.astype(float), expected=np.asarray(want, dtype=float))
        for q in evalpts(t0, t1):
            tq = dt(q)
            s = (LD(tq) - LD(t0)) / d
            a = abs(s)
            # absolute-coefficient versions of the four basis polynomials (bound value and t*derivative)
            H = [2 * a ** 3 + 3 * a ** 2 + 1, a ** 3 + 2 * a ** 2 + a, 2 * a ** 3 + 3 * a ** 2, a ** 3 + a ** 2]
            data = [np.abs(p0), abs(d) * np.abs(m0), np.abs(p1), abs(d) * np.abs(m1)]
            bound = K * eps * sum(h * x for h, x in zip(H, data)) + 16 * eps * abspoly(LD(tq)) * np.abs(scale)
            got = np.asarray(c(tq), dtype=LD)
            want = poly(LD(tq)) * scale
            r.n += 1
            if got.shape != np.shape(want) or np.any(np.abs(got - want) > bound):
                r.v("C17/hermite/value", "cubic reproduced inside and outside the interval", dict(cs, q=q),
                    observed=dict(got=got.astype(float), err=float(np.max(np.abs(got - want))), bound=float(np.max(bound))), expected=np.asarray(want, dtype=float))
            G = [6 * a ** 2 + 6 * a, 3 * a ** 2 + 4 * a + 1, 6 * a ** 2 + 6 * a, 3 * a ** 2 + 2 * a]
            gb = K * eps * sum(h * x for h, x in zip(G, data)) / abs(d) * 4 + 16 * eps * np.abs(dpoly(LD(tq)) * scale)
            gg = np.asarray(c.grad(tq), dtype=LD)
            gw = dpoly(LD(tq)) * scale
            r.n += 1
            if gg.shape != np.shape(gw) or np.any(np.abs(gg - gw) > gb):
                r.v("C17/hermite/grad", "gradient is the derivative of the value", dict(cs, q=q),
                    observed=dict(got=gg.astype(float), err=float(np.max(np.abs(gg - gw))), bound=float(np.max(gb))), expected=np.asarray(gw, dtype=float))
        r.out(("hermite", case["dtype"], len(shape), tuple(co), t1 > t0))
    # beside the dyadic lattice around the origin: narrow intervals with ends that are not dyadic fractions, far from the origin of the time axis
    # (|t0| / |t1 - t0| up to 4e5), of either orientation.  The cubic is P((t - t0) / (t1 - t0)) so that all four coefficients matter.
    LD = np.longdouble
    # ... and intervals of extreme length (steps of 1e-13 or 1e13 units of time, 1e+-110 where the float type holds them): powers of the length leave the
    #     float type's range although the length, the data and every value of the piece are ordinary numbers of that type
    extreme = [(0.0, 2.0 ** -43), (2.0 ** -43, 0.0), (0.0, 1.0e13), (-1.0e13, 0.0), (1.0, 1.0 + 2.0 ** -20)]
    if dt is not np.float32:
        extreme += [(0.0, 1.0e-110), (0.0, 1.0e110), (1.0e110, 0.0)]
    for (a_, b_) in FAR_INTERVALS + extreme:
        t0r, t1r = dt(a_), dt(b_)
        d = LD(t1r) - LD(t0r)
        P = lambda u: co[0] + u * (co[1] + u * (co[2] + u * co[3]))
        dP = lambda u: co[1] + u * (2 * co[2] + u * 3 * co[3])
        p0, p1 = P(LD(0)) * scale, P(LD(1)) * scale
        m0, m1 = dP(LD(0)) / d * scale, dP(LD(1)) / d * scale
        c = CH(t0r, t1r, np.asarray(p0, dtype=dt), np.asarray(p1, dtype=dt), np.asarray(m0, dtype=dt), np.asarray(m1, dtype=dt))
        cs = dict(section="hermite", dtype=case["dtype"], shape=list(shape), cubic=list(co), t0=a_, t1=b_, far=True)
        for k in range(-10, 27):
            tq = dt(LD(t0r) + d * LD(k) / 16)
            u = (LD(tq) - LD(t0r)) / d
            a = abs(u)
            H = [2 * a ** 3 + 3 * a ** 2 + 1, a ** 3 + 2 * a ** 2 + a, 2 * a ** 3 + 3 * a ** 2, a ** 3 + a ** 2]
            data = [np.abs(p0), abs(d) * np.abs(m0), np.abs(p1), abs(d) * np.abs(m1)]
            # data are rounded to the working precision when the piece is built; the query itself is exact (tq is the number passed)
            bound = 4 * K * eps * sum(h * x for h, x in zip(H, data))
            got = np.asarray(c(tq), dtype=LD)
            want = P(u) * scale
            r.n += 1
            if got.shape != np.shape(want) or np.any(np.abs(got - want) > bound):
                r.v("C17/hermite/value-far", "cubic reproduced inside and outside the interval (narrow interval far from the origin)", dict(cs, q=float(tq)),
                    observed=dict(err=float(np.max(np.abs(got - want))), bound=float(np.max(bound))), expected=np.asarray(want, dtype=float))
                break
            G = [6 * a ** 2 + 6 * a, 3 * a ** 2 + 4 * a + 1, 6 * a ** 2 + 6 * a, 3 * a ** 2 + 2 * a]
            gb = 16 * K * eps * sum(h * x for h, x in zip(G, data)) / abs(d)
            gg = np.asarray(c.grad(tq), dtype=LD)
            gw = dP(u) / d * scale
            r.n += 1
            if gg.shape != np.shape(gw) or np.any(np.abs(gg - gw) > gb):
                r.v("C17/hermite/grad-far", "gradient is the derivative of the value (narrow interval far from the origin)", dict(cs, q=float(tq)),
                    observed=dict(err=float(np.max(np.abs(gg - gw))), bound=float(np.max(gb))), expected=np.asarray(gw, dtype=float))
                break
        r.out(("hermite-far", case["dtype"], len(shape), tuple(co), b_ > a_))
    # end values and end slopes are reproduced EXACTLY (the statement qualifies only the polynomial reproduction with 'to rounding'), for interval lengths
    # whose reciprocal does not multiply back to one (49, 49/64, 98, 0.75) and for queries of other float types than the piece's
    for (a_, b_) in [(0.0, 49.0), (49.0, 0.0), (0.25, 0.25 + 49.0 / 64), (-0.5, 0.25), (98.0, 0.0), (-3.0, 46.0)] + FAR_INTERVALS[:2]:
        t0r, t1r = dt(a_), dt(b_)
        pe0 = np.asarray((co[0] + 1.0) * scale, dtype=dt); pe1 = np.asarray((co[1] - 2.0) * scale, dtype=dt)
        me0 = np.asarray((co[2] + 0.5) * scale, dtype=dt); me1 = np.asarray((co[3] - 0.25) * scale, dtype=dt)
        c = CH(t0r, t1r, pe0, pe1, me0, me1)
        cs = dict(section="hermite", dtype=case["dtype"], shape=list(shape), cubic=list(co), t0=a_, t1=b_, exact_ends=True)
        queries = [("own dtype", t0r, t1r), ("0-d array", np.asarray(t0r), np.asarray(t1r)), ("longdouble", np.longdouble(t0r), np.longdouble(t1r))]
        if dt is np.float64:
            queries.append(("python float", float(t0r), float(t1r)))
        for label, q0, q1 in queries:
            r.n += 1
            got = [np.asarray(c(q0)), np.asarray(c(q1)), np.asarray(c.grad(q0)), np.asarray(c.grad(q1))]
            want = [pe0, pe1, me0, me1]
            bad = [nm for nm, g_, w_ in zip(("p0", "p1", "m0", "m1"), got, want) if g_.shape != w_.shape or not np.array_equal(np.asarray(g_, dtype=np.longdouble), np.asarray(w_, dtype=np.longdouble))]
            if bad:
                r.v("C17/hermite/end-exact", "a cubic Hermite piece reproduces its end values and end slopes", dict(cs, query=label), observed=dict(not_reproduced=bad), expected="bit-exact at t0 and t1")
                break
    r.samples.append(dict(section="hermite", dtype=case["dtype"], shape=list(shape), cubic=list(co), intervals=20 + len(FAR_INTERVALS), points=37))
    return r


def run_case(case):
    return dict(bisect=bisect_case, mixed=mixed_case, hermite=hermite_case, knots=knots_case)[case["section"]](case)


def run(ctx):
    ctx.rule = ("bisection: every strictly increasing array of length 1..7 over a 9-point grid (501 arrays) x 21 queries on the refined grid "
                "(equal to elements, between, outside) x {float32, float64, longdouble, python list}, scalar and vector search against "
                "min(searchsorted(left), n-1); mixed types: array type x other query type x arrays of length 1..5 x queries = every element and its two neighbours "
                "in the QUERY's type (+5 others) x query layout {1, 2, 3 axes}, against exact comparison in extended precision; Hermite: 7 cubics (4 monomials + 3 combinations) x 20 ordered intervals on a 5-point lattice "
                "(both orientations) x 37 evaluation points inside/outside x scalar/array-valued data x 3 dtypes; "
                "distinct = distinct (section, dtype, length | cubic, result-set | orientation) classes")
    ctx.assumptions += ["Hermite tolerance = 64*eps*sum|basis_i|(|t|)*|data_i| (absolute-coefficient bound of the basis polynomials); bisection compared exactly"]
    cases = [dict(section="bisect", dtype=d, length=n) for d in list(DTYPES) + ["list"] for n in range(1, 8)]
    cases += [dict(section="mixed", adtype=a, qdtype=q, length=n) for a in DTYPES for q in DTYPES if a != q for n in range(1, 6)]
    cases += [dict(section="knots", dtype=d, set=k) for d in DTYPES for k in range(len(KNOTSETS))]
    cases += [dict(section="hermite", dtype=d, shape=s, cubic=c) for d in DTYPES for s in ([], [3], [2, 2]) for c in CUBICS]
    grid.pmap(run_case, cases, ctx, horizon=300, chunksize=1)


def replay(case):
    # a recorded case names one array/query (bisect) or one interval (hermite); re-run the enclosing cell
    if case["section"] == "bisect":
        return bisect_case(dict(section="bisect", dtype=case["dtype"], length=case["length"]))
    if case["section"] == "knots":
        return knots_case(dict(section="knots", dtype=case["dtype"], set=case["set"]))
    if case["section"] == "mixed":
        return mixed_case(dict(section="mixed", adtype=case["adtype"], qdtype=case["qdtype"], length=case["length"]))
    return hermite_case(dict(section="hermite", dtype=case["dtype"], shape=case["shape"], cubic=case["cubic"]))
