"""C18 — the solve_ivp facade honours its arguments and agrees with the object API (and scipy)."""
import itertools

import numpy as np

from mc.core.ctx import Res
from mc.core import grid
from mc.ref import driver

LEVEL = "exploration"
LD = np.longdouble


def _imports():
    import desolver as de
    from desolver import integrators as I
    return de, I


# y' = -0.5 y + cos(t) shifted per component (closed form), any state shape
def make_problem(shape):
    n = int(np.prod(shape))
    lam = (-0.5 - 0.25 * np.arange(n)).reshape(shape)

    def f(t, y):
        return lam * y + np.cos(t)

    def exact(t, t0, y0):
        # y' = l y + cos t :  particular yp = (-l cos t + sin t)/(1+l^2)
        l = lam
        yp = lambda s: (-l * np.cos(s) + np.sin(s)) / (1 + l * l)
        return yp(t) + (y0 - yp(t0)) * np.exp(l * (t - t0))
    y0 = (1.0 + 0.5 * np.arange(n)).reshape(shape)
    return f, exact, y0, lam


def f_args3(t, y, a, b, c):
    return a * y + b * t + c


def f_args2(t, y, a, b):
    return a * y + b * t + 0.25


def f_args1(t, y, a):
    return a * y - 0.5 * t + 0.25


def f_args_def(t, y, a=-0.75, b=-0.5, c=0.25):
    return a * y + b * t + c


def f_args0(t, y):
    return -0.75 * y - 0.5 * t + 0.25


def exact_affine(t, t0, y0, a, b, c):
    # y' = a y + b t + c : yp = -(b/a) t - (b/a^2) - c/a
    yp = lambda s: -(b / a) * s - b / (a * a) - c / a
    return yp(t) + (y0 - yp(t0)) * np.exp(a * (t - t0))


ADAPTIVE = {"RK45", "RK45CK", "DOPRI45", "Dormand-Prince", "RK87", "RK108", "RK1412", "Runge-Kutta-Cash-Karp", "AHE", "RadauIIA5", "LobattoIIIC4", "RadauIIA19",
            "RK45CKSolver", "RK8713MSolver", "RK108Solver", "RK1412Solver", "HeunEulerSolver", "Explicit RK45CK", "Explicit RK8713M", "Explicit RK108", "Explicit RK1412",
            "RK8713M", "RK108Feag", "RK1412Feag", "Runge-Kutta 8(7)", "Runge-Kutta 10(8)", "Runge-Kutta 14(12)", "Adaptive Heun-Euler", "Explicit Adaptive Heun-Euler"}


def by_hand(fun, t_span, y0, method, dense, first_step, max_step, min_step, atol, rtol, constants, t_eval=None):
    """drive the object API with the same settings the facade documents"""
    de, I = _imports()
    import desolver.backend as D
    dt0 = np.minimum(first_step, max_step); dt0 = np.maximum(dt0, min_step)
    a = de.OdeSystem(equ_rhs=fun, y0=y0, t=t_span, dense_output=dense, dt=dt0, atol=atol, rtol=rtol, constants=constants)
    a.method = method
    cbs = []
    if max_step != np.inf or min_step != 0.0:
        def cb(s):
            s.dt = np.clip(np.abs(s.dt), min_step, max_step)
        cbs.append(cb)
    if t_eval is None:
        a.integrate(callback=cbs)
        return a, a.t, np.transpose(a.y, axes=[*range(1, a.y.ndim), 0])
    ts, ys = [], []
    for t in np.sort(t_eval):
        a.integrate(t=t, callback=cbs)
        ts.append(a[-1].t); ys.append(a[-1].y)
    return a, np.stack(ts), np.stack(ys, axis=-1)


def facade_case(case):
    de, I = _imports()
    r = Res()
    shape = tuple(case["shape"])
    f, exact, y0, lam = make_problem(shape)
    t0, tf = case["span"]
    meth = case["method"]
    method = meth
    if case.get("as_class"):
        method = dict(de.integrators.available_methods(False))[meth]
    opts = {}
    if case["tol"] is not None:
        opts["atol"] = opts["rtol"] = case["tol"]
    if case["max_step"] is not None:
        opts["max_step"] = case["max_step"]
    if case.get("first_step") is not None:
        opts["first_step"] = case["first_step"]
    if case.get("prog"):
        opts["show_prog_bar"] = True       # the progress display: the result must be that of the same call without it (all clauses below apply unchanged)
    t_eval = None if case["t_eval"] is None else np.array(case["t_eval"], dtype=np.float64)
    key = "C18/%s" % meth.replace("/", "_")
    cs = dict(case)
    r.n = 1
    try:
        import contextlib, io
        with contextlib.redirect_stderr(io.StringIO()):
            res = de.solve_ivp(f, [t0, tf], y0.copy(), method=method, t_eval=t_eval, dense_output=case["dense"], **opts)
    except Exception as e:
        cause = getattr(e, "__cause__", None)
        if isinstance(cause, de.exception_types.FailedToMeetTolerances):
            r.add("raised_tolerances"); r.out(("raised", meth))
            return r
        r.v(key + "/raises", "solve_ivp serves a valid request", cs, observed=repr(e)[:200] + " / " + repr(cause)[:120], expected="a result")
        return r
    T = np.asarray(res.t); Y = np.asarray(res.y)
    nt = len(T)
    # shapes and pairing
    if T.shape != (nt,) or Y.shape != shape + (nt,):
        r.v(key + "/shape", "times (n_t,) and states (*state_shape, n_t)", cs, observed=dict(t=list(T.shape), y=list(Y.shape)), expected=dict(t=[nt], y=list(shape + (nt,))))
        return r
    sysm = res.ode_system
    if t_eval is None:
        if T[0] != t0 or not np.array_equal(Y[..., 0], y0):
            r.v(key + "/first-column", "results start at the initial condition", cs, observed=dict(t0=float(T[0]), y0=Y[..., 0].tolist()), expected=dict(t0=t0, y0=y0.tolist()))
        if not (np.array_equal(T, sysm.t) and all(np.array_equal(Y[..., k], sysm.y[k]) for k in range(nt))):
            r.v(key + "/pairing", "column k of y pairs with t[k] (the underlying system's rows)", cs, observed="columns differ from ode_system rows", expected="identical")
        if abs(float(T[-1]) - tf) > 64 * 2.2e-16 * max(1.0, abs(tf), abs(t0)):
            r.v(key + "/end", "the run reaches the end of the span", cs, observed=float(T[-1]), expected=tf)
    else:
        want_t = np.sort(t_eval)
        # 'exactly those times': one column per requested time, each at that time to a few rounding units (C03's end-point rule)
        if T.shape != want_t.shape or float(np.max(np.abs(T - want_t))) > 64 * 2.2e-16 * max(1.0, abs(t0), abs(tf)):
            r.v(key + "/t_eval", "with t_eval exactly those times (sorted) are returned", cs, observed=T.tolist(), expected=want_t.tolist())
            return r
    # accuracy against the closed form (adaptive methods: tolerance level; all methods: column/time pairing sanity)
    tol = case["tol"] if case["tol"] is not None else 32 * 2.2e-16 * 4
    if meth in ADAPTIVE and case["tol"] is not None:
        err = max(float(np.max(np.abs(Y[..., k] - exact(T[k], t0, y0)))) for k in range(nt))
        bound = 2e3 * tol * (1 + float(np.max(np.abs(y0))))
        if err > bound:
            r.v(key + "/accuracy", "the solution at the returned times is correct to tolerance", cs, observed=dict(err=err, bound=bound), expected="<= 2e3 tol (1+|y0|)")
    # max_step
    if case["max_step"] is not None:
        steps = np.abs(np.diff(np.asarray(sysm.t, dtype=LD))).astype(float)
        if len(steps) and steps.max() > case["max_step"] * (1 + 4 * 2.2e-16):
            k = int(np.argmax(steps))
            r.v(key + "/max_step", "no recorded step is longer than max_step", cs, observed=dict(longest=float(steps.max()), at_step=k, t=float(sysm.t[k])), expected=case["max_step"])
    # the facade reports the underlying system's dense output, events, counters, status
    if (res.sol is not sysm.sol) or res.nfev != sysm.nfev or res.njev != sysm.njev or res.success != sysm.success or res.status != sysm.integration_status or (case["dense"] and res.sol is None):
        r.v(key + "/fields", "dense output, counters and status are those of the underlying system", cs,
            observed=dict(nfev=[int(res.nfev), int(sysm.nfev)], success=[bool(res.success), bool(sysm.success)], sol=str(type(res.sol))), expected="identical")
    # agreement with the object API driven by hand
    if case.get("by_hand"):
        try:
            a, Th, Yh = by_hand(f, [t0, tf], y0.copy(), method, case["dense"], case.get("first_step") or 1.0, case["max_step"] if case["max_step"] is not None else np.inf, 0.0,
                                opts.get("atol"), opts.get("rtol"), None, t_eval)
            sc = max(1.0, float(np.max(np.abs(Yh))))
            if Th.shape != T.shape or Yh.shape != Y.shape or float(np.max(np.abs(Th - T))) > 16 * 2.2e-16 * 4 or float(np.max(np.abs(Yh - Y))) > 16 * 2.2e-16 * sc * max(1, nt):
                r.v(key + "/differs-from-object-api", "results agree with driving the object API with the same settings", cs,
                    observed=dict(shapes=[list(Y.shape), list(Yh.shape)], max_dy=float(np.max(np.abs(Yh - Y))) if Yh.shape == Y.shape else None), expected="equal at rounding level")
            elif not np.array_equal(Yh, Y):
                r.add("by_hand_not_bit_identical")
        except Exception as e:
            r.v(key + "/object-api-raises", "the object API serves the same request", cs, observed=repr(e)[:200], expected="a result")
    r.out((meth in ADAPTIVE, len(shape), t_eval is None, case["max_step"], case["tol"] is None, t0 < tf))
    if hash(str(case)) % 499 == 0:
        r.samples.append(dict(case=case, n_t=nt))
    return r


def args_case(case):
    de, I = _imports()
    r = Res()
    params = dict(a=-0.75, b=-0.5, c=0.25)
    vals = case["args"]
    # 'defaults': the right-hand side declares three parameters with defaults and args may be shorter: it binds the FIRST len(args) of them
    fun = f_args_def if case.get("defaults") else [f_args0, f_args1, f_args2, f_args3][len(vals)]
    full = dict(params)
    for nm, v in zip("abc", vals):
        full[nm] = v
    y0 = np.array([1.0, -0.5])
    t0, tf = case["span"]
    r.n = 1
    try:
        res = de.solve_ivp(fun, [t0, tf], y0.copy(), method=case["method"], args=tuple(vals) if vals else None, atol=1e-9, rtol=1e-9)
    except Exception as e:
        r.v("C18/args-raises", "args are bound to the right-hand side's parameters", case, observed=repr(e)[:200] + repr(getattr(e, "__cause__", ""))[:100], expected="a result")
        return r
    want = exact_affine(tf, t0, y0, full["a"], full["b"], full["c"])
    err = float(np.max(np.abs(res.y[..., -1] - want)))
    if err > 1e-5 * (1 + float(np.max(np.abs(want)))):
        r.v("C18/args-order", "args are bound to the right-hand side's parameters in order", case, observed=dict(y_end=res.y[..., -1].tolist(), expected_with_args_in_order=want.tolist()), expected="closed form with (a, b, c) = args")
    r.out(("args", len(vals), case["method"]))
    return r


def scipy_case(case):
    de, I = _imports()
    import scipy.integrate as si
    r = Res()
    shape = tuple(case["shape"])
    f, exact, y0, lam = make_problem(shape)
    t0, tf = case["span"]
    tol = case["tol"]
    te = None if case["t_eval"] is None else np.array(case["t_eval"])
    r.n = 1
    res = de.solve_ivp(f, [t0, tf], y0.copy(), method=case["method"], t_eval=te, atol=tol, rtol=tol)
    fs = lambda t, y: f(t, y.reshape(shape)).reshape(-1)
    ref = si.solve_ivp(fs, [t0, tf], y0.reshape(-1), method=case["scipy"], t_eval=te, atol=tol, rtol=tol)
    if te is None:
        a, b = np.asarray(res.y)[..., -1].reshape(-1), ref.y[:, -1]
    else:
        a, b = np.asarray(res.y).reshape(-1, len(te)), ref.y
    if a.shape != b.shape or float(np.max(np.abs(a - b))) > 2e3 * tol * (1 + float(np.max(np.abs(b)))):
        r.v("C18/scipy/%s" % case["method"], "results agree with scipy's solve_ivp to tolerance", case,
            observed=dict(max_diff=float(np.max(np.abs(a - b))) if a.shape == b.shape else "shape %s vs %s" % (a.shape, b.shape)), expected="<= 2e3 tol")
    r.out(("scipy", case["method"], case["scipy"], te is None))
    return r


def events_case(case):
    """'events ... are those of the underlying system', with t_eval: the facade integrates from output time to output time; the events it reports must be the
    events of the plain run (no t_eval) - same functions, same times, each crossing once - also when roots lie exactly on output times"""
    de, I = _imports()
    r = Res()
    meth = case["method"]
    t0, tf = case["span"]

    def f(t, y, **kw):
        return np.array([y[1], -y[0]])

    def clock(t, y, **kw):
        return np.asarray(np.cos(np.pi * t))              # roots at 0.5, 1.5, ... (on the output grid)

    def pos(t, y, **kw):
        return np.asarray(y[0] - 0.25)
    y0 = np.array([np.sin(t0), np.cos(t0)])
    r.n = 1
    try:
        plain = de.solve_ivp(f, [t0, tf], y0.copy(), method=meth, events=[clock, pos], atol=1e-9, rtol=1e-9)
        res = de.solve_ivp(f, [t0, tf], y0.copy(), method=meth, t_eval=np.array(case["t_eval"]), events=[clock, pos], atol=1e-9, rtol=1e-9)
    except Exception as e:
        r.v("C18/%s/raises" % meth, "solve_ivp serves a valid request", case, observed=repr(e)[:200], expected="a result")
        return r
    key = "C18/%s" % meth
    if np.asarray(res.t).shape != (len(case["t_eval"]),) or float(np.max(np.abs(np.asarray(res.t) - np.sort(np.asarray(case["t_eval"]))))) > 64 * 2.2e-16 * 8:
        r.v(key + "/t_eval", "with t_eval it returns exactly those times (sorted)", case, observed=[float(x) for x in np.asarray(res.t)][:12], expected=sorted(case["t_eval"])[:12])
    for fn, label in ((clock, "clock"), (pos, "position")):
        a_ = sorted(float(e.t) for e in plain.t_events if e.event is fn)
        b_ = sorted(float(e.t) for e in res.t_events if e.event is fn)
        # (the two runs take different steps, so a root is located to the accuracy of each run: the same crossings, once each, at about the same times)
        if len(a_) != len(b_) or (a_ and max(abs(x - y) for x, y in zip(a_, b_)) > 0.05):
            r.v(key + "/events", "events are those of the underlying system (the same with and without t_eval)", dict(case, function=label), observed=b_[:12], expected=a_[:12])
    r.out(("events", meth, len(case["t_eval"])))
    return r


def argsev_case(case):
    """'args are bound to the right-hand side's parameters in order' - and the system they describe is ONE system: the right-hand side, a user Jacobian, a plain
    event and an event that takes the derivative all see the same constants, in every call, whatever the method and however it is named"""
    de, I = _imports()
    r = Res()
    K_, M_ = 4.0, 0.25            # omega = sqrt(k/m) = 4
    seen = dict(f=set(), jac=set(), pos=set(), force=set())
    if case["signature"] == "strict":
        def f(t, y, k, m):
            seen["f"].add((k, m)); return np.array([y[1], -(k / m) * y[0]])
        def jac(t, y, k, m):
            seen["jac"].add((k, m)); return np.array([[0.0, 1.0], [-(k / m), 0.0]])
        def pos(t, y, k, m):
            seen["pos"].add((k, m)); return np.asarray(y[0] - 0.5)
        def force(t, y, dy, k, m):
            seen["force"].add((k, m)); return np.asarray(m * dy[1] + k * 0.3)          # zero where y[0] = 0.3
    else:
        def f(t, y, k=1.0, m=1.0, **kw):
            seen["f"].add((k, m)); return np.array([y[1], -(k / m) * y[0]])
        def jac(t, y, k=1.0, m=1.0, **kw):
            seen["jac"].add((k, m)); return np.array([[0.0, 1.0], [-(k / m), 0.0]])
        def pos(t, y, k=1.0, m=1.0, **kw):
            seen["pos"].add((k, m)); return np.asarray(y[0] - 0.5)
        def force(t, y, dy, k=1.0, m=1.0, **kw):
            seen["force"].add((k, m)); return np.asarray(m * dy[1] + k * 0.3)
    force.requires_dstate = True
    t0, tf = case["span"]
    w = 4.0
    y0 = np.array([np.sin(w * t0), w * np.cos(w * t0)])
    meth = case["method"]
    if case.get("as_class"):
        meth = [c for c in I.explicit_methods() + I.implicit_methods() if c.__name__ == meth][0]
    rhs = de.DiffRHS(f)
    if case["jac"]:
        rhs.hook_jacobian_call(jac)
    r.n = 1
    key = "C18/args-events/%s" % case["method"]
    try:
        res = de.solve_ivp(rhs, [t0, tf], y0.copy(), method=meth, args=(K_, M_), events=[pos, force], atol=1e-9, rtol=1e-9, **(dict(first_step=case["first_step"]) if case.get("first_step") else {}))
    except Exception as e:
        r.v(key + "/raises", "args are bound for the whole system (right-hand side, Jacobian, events)", case, observed=(repr(e)[:120] + " <- " + repr(getattr(e, "__cause__", ""))[:160]), expected="a result")
        return r
    for nm_, st in seen.items():
        if st - {(K_, M_)}:
            r.v(key + "/constants", "every callable of the system receives the constants bound from args", dict(case, callable=nm_), observed=sorted(st)[:4], expected=[(K_, M_)])
    lo, hi = min(t0, tf), max(t0, tf)

    def roots(c):
        out = []
        for n in range(-20, 21):
            for th in (np.arcsin(c), np.pi - np.arcsin(c)):
                t_ = (th + 2 * np.pi * n) / w
                if lo + 1e-6 < t_ < hi - 1e-6:
                    out.append(t_)
        return sorted(out)
    for fn, label, c in ((pos, "plain event", 0.5), (force, "event taking the derivative", 0.3)):
        got = sorted(float(e.t) for e in res.t_events if e.event is fn)
        want = roots(c)
        if len(got) != len(want) or (want and max(abs(x - y) for x, y in zip(got, want)) > 2e-3):      # (how sharply a root is located is C07; constants that do not arrive move these roots by 0.05 or more)
            r.v(key + "/events", "events are those of the system described by args", dict(case, event=label), observed=got[:8], expected=want[:8])
    yend = np.array([np.sin(w * tf), w * np.cos(w * tf)])
    if float(np.max(np.abs(np.asarray(res.y)[..., -1] - yend))) > 1e-4:
        r.v(key + "/end-state", "args are bound to the right-hand side's parameters in order", case, observed=np.asarray(res.y)[..., -1].tolist(), expected=yend.tolist())
    r.out(("argsev", case["method"], case["signature"], bool(case["jac"]), tf > t0, sorted(len(v) for v in seen.values())))
    return r


def callbacks_case(case):
    """'honours its arguments' over successive calls: the caller keeps ONE list of callbacks and passes it to every call.  A call is described by its own
    arguments only: a call without max_step is not limited by the max_step of an earlier call, the caller's list is left as it was, each user callback
    is invoked once per recorded step."""
    de, I = _imports()
    r = Res()
    meth = case["method"]
    t0, tf = case["span"]

    def f(t, y, **kw):
        return np.array([y[1], -y[0]])
    y0 = np.array([np.sin(t0), np.cos(t0)])
    hits = []

    def user_cb(s):
        hits.append(len(s))
    shared = [user_cb] if case["kind"] == "list" else (user_cb,)
    r.n = 1
    key = "C18/callbacks/%s" % meth
    try:
        kw1 = {case["first"][0]: case["first"][1]}
        res1 = de.solve_ivp(f, [t0, tf], y0.copy(), method=meth, atol=1e-8, rtol=1e-8, callbacks=shared, **kw1)
        n1 = len(hits); del hits[:]
        res2 = de.solve_ivp(f, [t0, tf], y0.copy(), method=meth, atol=1e-8, rtol=1e-8, callbacks=shared)
        n2 = len(hits); del hits[:]
        ref2 = de.solve_ivp(f, [t0, tf], y0.copy(), method=meth, atol=1e-8, rtol=1e-8, callbacks=[user_cb])
    except Exception as e:
        r.v(key + "/raises", "solve_ivp serves a valid request", case, observed=repr(e)[:200], expected="a result")
        return r
    if len(shared) != 1 or shared[0] is not user_cb:
        r.v(key + "/caller-list", "the caller's list of callbacks is left as it was", case, observed=len(shared), expected=1)
    if n1 != len(res1.t) - 1 or n2 != len(res2.t) - 1:
        r.v(key + "/count", "each user callback is invoked once per recorded step", case, observed=dict(calls=[n1, n2], steps=[len(res1.t) - 1, len(res2.t) - 1]), expected="equal")
    if not (np.array_equal(np.asarray(res2.t), np.asarray(ref2.t)) and np.array_equal(np.asarray(res2.y), np.asarray(ref2.y))):
        r.v(key + "/later-call", "a call is described by its own arguments: the same call gives the same result whatever was asked of an earlier call", case,
            observed=dict(steps=len(res2.t) - 1, longest=float(np.max(np.abs(np.diff(np.asarray(res2.t)))))), expected=dict(steps=len(ref2.t) - 1, longest=float(np.max(np.abs(np.diff(np.asarray(ref2.t)))))))
    if case["first"][0] == "max_step" and float(np.max(np.abs(np.diff(np.asarray(res1.t))))) > case["first"][1] * (1 + 1e-12):
        r.v(key + "/max_step", "no recorded step is longer than max_step", case, observed=float(np.max(np.abs(np.diff(np.asarray(res1.t))))), expected=case["first"][1])
    r.out(("callbacks", meth, case["kind"], case["first"][0], tf > t0))
    return r


def run_case(case):
    return dict(callbacks=callbacks_case, facade=facade_case, args=args_case, scipy=scipy_case, events=events_case, argsev=argsev_case)[case["section"]](case)


def run(ctx):
    de, I = _imports()
    names = de.available_methods()
    lat = [0.0, 0.25, 0.5, 0.75, 1.0]          # fractions of the span
    cases = []
    fwd = [(0.0, 2.0), (-2.0, -0.5)]
    # S1: every registered name (and 4 classes), three spans incl. a backward one, default and tight tolerances
    for nm in names:
        for span in fwd + [(1.0, -1.0)]:
            for tol in (None, 1e-8):
                if ctx.quick and tol is None and nm not in ("RK45", "RK4", "Euler", "ABAS5O6H", "ImplicitMidpoint", "DOPRI45"):
                    continue
                if tol is None and nm in ("RadauIIA5", "RadauIIA19", "LobattoIIIC4", "AHE", "HeunEulerSolver", "Adaptive Heun-Euler", "Explicit Adaptive Heun-Euler"):
                    continue        # implicit / 2nd-order embedded pairs at the default tolerance of 32 eps need minutes per run
                heavy = nm in ("RadauIIA19",) or "1412" in nm or "108" in nm or "10(8)" in nm or "14(12)" in nm
                fs = 0.125 if nm not in ADAPTIVE else None
                low_order = "Heun-Euler" in nm or nm in ("AHE", "HeunEulerSolver")
                cases.append(dict(section="facade", method=nm, span=list(span), shape=[2], t_eval=None, dense=False, tol=(1e-5 if (low_order and tol) else tol), max_step=None, first_step=fs, by_hand=not heavy))
    # state shapes of every rank without t_eval (incl. non-square matrix states)
    for nm in ("RK45", "DOPRI45", "RK4", "RK87") + (() if ctx.quick else ("RadauIIA5", "ImplicitMidpoint")):
        for span in fwd + [(1.0, -1.0)]:
            for shape in ([1], [2, 2], [2, 3], [3, 1, 2]):
                for dense in (False, True):
                    cases.append(dict(section="facade", method=nm, span=list(span), shape=shape, t_eval=None, dense=dense, tol=1e-8, max_step=None,
                                      first_step=0.125 if nm == "RK4" else None, by_hand=True))
    for nm in ("RK45CKSolver", "RK4Solver", "ABAs5o6HSolver", "ImplicitMidpoint"):
        cases.append(dict(section="facade", method=nm, as_class=True, span=[0.0, 2.0], shape=[2], t_eval=None, dense=True, tol=1e-8, max_step=None, first_step=0.125, by_hand=True))
    # S2: t_eval subsets
    subsets = [list(c) for k in range(1, 6) for c in itertools.combinations(range(5), k)]
    for nm in ("RK45", "DOPRI45", "RK4") + (() if ctx.quick else ("RK87", "RadauIIA5", "ABAS5O6H")):
        for span in fwd:
            for shape in ([1], [2], [2, 2]):
                for sub in subsets:
                    pts = [span[0] + lat[i] * (span[1] - span[0]) for i in sub]
                    variants = [pts]
                    if len(pts) >= 2:
                        variants.append(pts[::-1])                    # unsorted
                        variants.append(pts + [pts[len(pts) // 2]])   # repeated
                    for v in variants:
                        if ctx.quick and shape != [2] and v is not pts:
                            continue
                        cases.append(dict(section="facade", method=nm, span=list(span), shape=shape, t_eval=v, dense=(len(sub) % 2 == 0), tol=1e-8, max_step=None,
                                          first_step=0.125 if nm == "RK4" else None, by_hand=True))
    # S2b: output times that are close together - relative to their own size (|t| ~ 2000, spacing 2.5e-3) and absolutely (spacing 4e-9 near 0.5): distinct
    #      requested times are distinct columns, however close
    for nm in ("RK45", "RK4", "DOPRI45", "RK87"):
        for span, te in (((2000.0, 2001.0), [2000.25 + 0.0025 * k for k in range(9)] + [2001.0]), ((-2001.0, -2000.0), [-2000.75 + 0.0025 * k for k in range(9)] + [-2000.0]),
                         ((0.0, 1.0), [0.5, 0.5 + 4e-9, 0.5 + 8e-9, 0.5 + 1.2e-8, 1.0]), ((-1.0, 0.0), [-0.5, -0.5 + 4e-9, -0.5 + 8e-9, 0.0])):
            if nm == "RK4" and abs(span[0]) < 100:
                continue            # (a fixed-step method keeps the step it was cut to for a nearby target: 4e-9 from there to the end of the span is 1e8 steps)
            for dense in (False, True):
                cases.append(dict(section="facade", method=nm, span=list(span), shape=[2], t_eval=te, dense=dense, tol=1e-8, max_step=None, first_step=0.125 if nm == "RK4" else None, by_hand=True))
    # S3: args of length 0..3
    for nm in ("RK45", "DOPRI45", "RK87"):
        for span in fwd + [(1.0, -1.0)]:
            for vals in ([], [-1.25], [-1.25, 0.75], [-1.25, 0.75, -2.0], [-0.5, -2.0, 0.75]):
                cases.append(dict(section="args", method=nm, span=list(span), args=vals))
                if len(vals) <= 3 and (len(vals) > 0):
                    cases.append(dict(section="args", method=nm, span=list(span), args=vals, defaults=True))
    # S3b: args together with a user Jacobian and events (one of them taking the derivative), strict and permissive signatures, methods by name and by class
    for nm, ascls, fs in (("RK45", False, None), ("RK8713MSolver", True, None), ("RadauIIA5", False, None), ("RadauIIA5", True, None), ("RK4", False, 0.015625), ("ABAS5O6H", False, 0.015625)):
        for span in ((0.0, 2.0), (1.0, -1.0)):
            for sig in ("strict", "permissive"):
                for jc in ((True, False) if nm == "RadauIIA5" else (True,)):
                    cases.append(dict(section="argsev", method=nm, as_class=ascls, span=list(span), signature=sig, jac=jc, first_step=fs))
    # S3c: one list of callbacks passed to successive calls, the first of them with a step limit
    for nm in ("RK45", "RK87", "DOPRI45", "RadauIIA5"):
        for span in ((0.0, 2.0), (1.0, -1.0)):
            for kind in ("list", "tuple"):
                for first in (("max_step", 0.05), ("min_step", 0.2)):
                    if nm == "RadauIIA5" and (ctx.quick and kind == "tuple"):
                        continue
                    cases.append(dict(section="callbacks", method=nm, span=list(span), kind=kind, first=list(first)))
    # S4: max_step
    for nm in ("RK45", "DOPRI45", "RK4", "Euler", "ABAS5O6H", "ImplicitMidpoint", "RadauIIA5", "RK87") + (() if ctx.quick else ("BackwardEuler", "GaussLegendre4", "RK1412", "AHE")):
        for span in fwd + [(1.0, -1.0), (2.0, 0.5)]:
            for ms in (0.1, 0.5):
                for tol in (None, 1e-8):
                    if tol is None and nm in ADAPTIVE and (ctx.quick or nm in ("RadauIIA5", "AHE")):
                        continue        # (implicit / 2nd-order embedded pairs at the default tolerance of 32 eps need minutes per run)
                    for te in ((None,) if span[1] < span[0] else (None, [span[0] + 0.5 * (span[1] - span[0]), span[1]])):
                        cases.append(dict(section="facade", method=nm, span=list(span), shape=[2], t_eval=te, dense=False, tol=tol, max_step=ms, first_step=None, by_hand=True))
    # S4b: first_step together with max_step (larger than, equal to and smaller than it)
    for nm in ("RK4", "RK45", "DOPRI45", "RK87", "ABAS5O6H"):
        for span in fwd + [(1.0, -1.0)]:
            for (fs, ms) in ((0.5, 0.1), (0.1, 0.1), (0.05, 0.1), (0.25, 0.125)):
                for tol in (1e-6, 1e-8):
                    cases.append(dict(section="facade", method=nm, span=list(span), shape=[2], t_eval=None, dense=False, tol=tol, max_step=ms, first_step=fs, by_hand=True))
    # S4d: the progress display (show_prog_bar) with and without max_step / first_step / t_eval, spans of every direction
    for nm in ("RK4", "RK45", "ABAS5O6H", "ImplicitMidpoint"):
        for span in fwd + [(1.0, -1.0), (2.0, 0.5)]:
            for (fs, ms) in ((None, None), (0.5, 0.1), (None, 0.5)):
                for te in ((None,) if span[1] < span[0] else (None, [span[0] + 0.5 * (span[1] - span[0]), span[1]])):
                    cases.append(dict(section="facade", method=nm, span=list(span), shape=[2], t_eval=te, dense=(fs is None), tol=1e-6, max_step=ms, first_step=fs, by_hand=True, prog=True))
    # S4c: events together with t_eval (roots on the output times, between them; sorted and shuffled output times)
    for nm in ("RK45", "RK87", "RK4", "DOPRI45"):
        for tev in ([0.25 * k for k in range(1, 25)], [0.5, 1.5, 2.5, 3.5, 4.5, 5.5, 6.0], [0.3, 1.1, 2.9, 4.7, 6.0], [3.5, 0.5, 6.0, 2.5, 1.5, 5.5, 4.5]):
            cases.append(dict(section="events", method=nm, span=[0.0, 6.0], t_eval=tev))
    # S5: scipy
    for nm, sp in (("RK45", "RK45"), ("DOPRI45", "RK45"), ("RK87", "DOP853"), ("RK108", "DOP853"), ("RadauIIA5", "Radau")):
        for span in fwd + [(1.0, -1.0)]:
            for shape in ([1], [2], [2, 2]):
                for te in ((None,) if span[1] < span[0] else (None, [span[0] + 0.25 * (span[1] - span[0]), span[0] + 0.75 * (span[1] - span[0])])):
                    cases.append(dict(section="scipy", method=nm, scipy=sp, span=list(span), shape=shape, t_eval=te, tol=1e-8))
    ctx.rule = ("sub-products: S1 every registered method name (%d) + 4 classes x 3 spans (incl. backward) x tolerances; S2 all 31 non-empty subsets of a 5-point lattice of the span "
                "(+ unsorted and repeated variants) x state shapes (1,), (2,), (2,2) x spans x methods; S3 args tuples of length 0..3 with distinguishable parameters; S3b args x {user Jacobian, plain event, derivative-taking event} x signatures {strict, defaults} x 6 methods by name / class x 2 directions; "
                "S4 max_step in {0.1, 0.5} x spans of every sign/direction x methods; S5 scipy cross-check; oracle: closed form, the underlying system, the object API driven by hand; "
                "distinct = distinct (adaptive?, shape rank, t_eval?, max_step, default tol?, direction) classes" % len(names))
    ctx.assumptions += ["t_eval on backward spans is rejected by the facade by design and not exercised", "accuracy is demanded of adaptive methods only (2e3*tol*(1+|y0|)); fixed-step methods are compared with the object API",
                        "scipy.integrate.solve_ivp trusted as an independent reference (2e3*tol)"]
    grid.pmap(run_case, cases, ctx, horizon=600)
    ctx.note("cases", total=len(cases))


def replay(case):
    return run_case(case)
