"""C19 — trajectory lookup by index and by time returns the right sample (reference: a python list of rows)."""
import numpy as np

from mc.core.ctx import Res
from mc.core import grid
from mc.ref import driver
from mc.props import loopcommon as lc

LEVEL = "exploration"
LD = np.longdouble


def build(case):
    de, I = lc._imports()
    dtype = lc.DT[case["dtype"]]
    t0, tf = case["span"]
    y0 = np.array([np.sin(t0), np.cos(t0)], dtype=dtype)

    def f(t, y, **kw):
        return np.array([y[1], -y[0]], dtype=y.dtype)
    # 'against': the system is configured with the mirrored span and the run direction is chosen by integrate(t) alone
    tf_cfg = (2 * t0 - tf) if case.get("against") else tf
    buf = y0.copy()         # the caller reuses its buffer after construction
    a = de.OdeSystem(f, y0=buf, t=(dtype(t0), dtype(tf_cfg)), dt=dtype(case["dt0"]), rtol=dtype(1e-6), atol=dtype(1e-6), dense_output=bool(case["dense"]))
    buf[...] = dtype(77.0)
    a.method = lc.by_name(case["method"])
    b = driver.Budget(20000)

    def peek():
        # 'peek': the caller looks the trajectory up (scalar, array, slice, index) BETWEEN the calls of the history too - an observation builds whatever
        # caches the lookups keep, and a later call must not be answered from them
        if not case.get("peek"):
            return
        for q in (lambda: a[a.t[-1]], lambda: a[np.asarray([a.t[0], a.t[-1], a.t[len(a) // 2]], dtype=dtype)], lambda: a[a.t[0]:a.t[-1]], lambda: a[-1],
                  lambda: a[dtype(0.5) * (a.t[0] + a.t[-1])]):
            try:
                q()
            except Exception:
                pass
    if case["hist"] == "none":
        pass
    elif case["hist"] == "one":
        a.integrate(dtype(tf), callback=b)
    elif case["hist"] == "continued":
        a.integrate(dtype(t0 + 0.5 * (tf - t0)), callback=b); peek()
        a.integrate(dtype(tf), callback=b)
    elif case["hist"] == "extended":
        a.integrate(dtype(tf), callback=b); peek()
        a.integrate(dtype(tf + 0.75 * (tf - t0)), callback=b)       # the record extends beyond the configured (t0, tf)
    elif case["hist"] in ("one-ev", "continued-ev", "terminal-ev"):
        # runs that monitored events (their search keeps interpolants of the last steps even when dense output is off): lookups afterwards are by nearest sample
        def ev(t, y, **kw):
            return np.asarray(t - dtype(t0 + 0.4375 * (tf - t0)))
        ev.is_terminal = case["hist"] == "terminal-ev"
        if case["hist"] == "continued-ev":
            a.integrate(dtype(t0 + 0.5 * (tf - t0)), events=[ev], callback=b); peek()
        a.integrate(dtype(tf), events=[ev], callback=b)
    elif case["hist"] == "partial":
        a.integrate(dtype(t0 + 0.375 * (tf - t0)), callback=b)
    elif case["hist"] == "reset":
        a.integrate(dtype(tf), callback=b); peek()
        a.reset()                                                    # one recorded sample again; the storage of the old run may still be around
    elif case["hist"] == "reset-partial":
        a.integrate(dtype(tf), callback=b); peek()
        a.reset(); peek()
        a.integrate(dtype(t0 + 0.375 * (tf - t0)), callback=b)       # a shorter record than the one before the reset
    elif case["hist"] == "failed":
        st = dict(n=0)

        def boom(s):
            st["n"] += 1
            if st["n"] == 3:
                raise RuntimeError("boom")
        try:
            a.integrate(dtype(tf), callback=[boom, b])
        except Exception:
            pass
    return a, dtype


def same_row(st, T, Y, i):
    return st.t == T[i] and np.array_equal(np.asarray(st.y), Y[i])


def check_case(case):
    r = Res()
    a, dtype = build(case)
    T = np.array(a.t); Y = np.array(a.y)
    n = len(T)
    ref = driver.Trajectory(T, Y)
    name = "%s/%s" % (case["method"], "dense" if case["dense"] else "rows")
    d = 1 if case["span"][1] > case["span"][0] else -1
    cs = dict(case)
    if len(a) != n:
        r.v("C19/len/%s" % name, "len() is the number of recorded steps", cs, observed=len(a), expected=n)
    # ---- integer indices
    for i in range(-n - 2, n + 3):
        r.n += 1
        try:
            want = ref.index(i); wexc = None
        except IndexError:
            want = None; wexc = IndexError
        try:
            got = a[i]; gexc = None
        except IndexError:
            got = None; gexc = IndexError
        except Exception as e:
            got = None; gexc = type(e)
        if wexc is not None:
            if gexc is not IndexError:
                r.v("C19/index-out-of-range/%s" % name, "an out-of-range integer index raises IndexError", dict(cs, index=i, rows=n),
                    observed=("returned t=%r" % (float(got.t),)) if got is not None else repr(gexc), expected="IndexError")
        else:
            if gexc is not None or not (got.t == want[0] and np.array_equal(np.asarray(got.y), want[1])):
                r.v("C19/index/%s" % name, "an integer index addresses the recorded steps like a sequence", dict(cs, index=i, rows=n),
                    observed=repr(gexc) if gexc else float(got.t), expected=float(want[0]))
    # ---- iteration
    r.n += 1
    try:
        rows = []
        for st in a:
            rows.append(st)
            if len(rows) > n + 3:
                break
        if len(rows) != n or not all(same_row(st, T, Y, i) for i, st in enumerate(rows)):
            r.v("C19/iteration/%s" % name, "iteration yields each recorded (t, y) once, in order", cs, observed=dict(yielded=len(rows), t=[float(s.t) for s in rows][:6]), expected=dict(rows=n))
    except Exception as e:
        r.v("C19/iteration/%s" % name, "iteration yields each recorded (t, y) once, in order", cs, observed=repr(e)[:200], expected="rows")
    # ---- lookup by time
    qs = []
    for k in range(n):
        qs += [T[k], np.nextafter(T[k], dtype(np.inf)), np.nextafter(T[k], dtype(-np.inf))]
    for k in range(n - 1):
        m = T[k] + (T[k + 1] - T[k]) / 2
        qs.append(m)
        u = abs(np.nextafter(m, dtype(np.inf)) - m)
        for j in (0, 1, 2, 10, 20, 30):
            qs += [m + u * 2 ** j, m - u * 2 ** j]
        qs += [T[k] + (T[k + 1] - T[k]) * dtype(0.25), T[k] + (T[k + 1] - T[k]) * dtype(0.875)]
    tmin, tmax = T.min(), T.max()
    outside = [tmin - 1, tmax + 1, tmin - dtype(1e-3), tmax + dtype(1e-3)]
    if case["dense"] and n == 1:
        qs, outside = [], []       # no dense solution exists before the first step: no claim
    for q in qs + outside:
        q = dtype(q)
        r.n += 1
        is_out = q < tmin or q > tmax
        try:
            got = a[q]
        except Exception as e:
            r.v("C19/time-lookup-raises/%s" % name, "looking the trajectory up at a time returns a sample", dict(cs, q=float(q)), observed=repr(e)[:200], expected="a sample")
            break
        if case["dense"] and n > 1:
            if is_out:
                continue        # the statement covers the dense solution inside the integrated range; outside is extrapolation
            want = np.asarray(a.sol(q))
            if got.t != q or not np.array_equal(np.asarray(got.y), want):
                r.v("C19/time-lookup-dense/%s" % name, "with dense output a time lookup returns the dense solution there", dict(cs, q=float(q)),
                    observed=dict(t=float(got.t), y=np.asarray(got.y, dtype=float)), expected=dict(t=float(q), y=want.astype(float)))
                break
        else:
            near = ref.nearest(q)
            if not any(same_row(got, T, Y, i) for i in near):
                r.v("C19/time-lookup-nearest/%s" % name, "without dense output a time lookup returns the recorded sample nearest in time", dict(cs, q=float(q)),
                    observed=dict(t=float(got.t)), expected=dict(nearest_t=[float(T[i]) for i in near], rows=n))
                break
    # ---- array-valued time lookups (dense output kept): one entry per query time, each equal to the scalar lookup at that time - inside the range, at the
    #      recorded times and just outside both ends, in any order
    if case["dense"] and n > 1:
        arr_q = np.asarray([dtype(x) for x in (qs[::3] + outside + [T[0], T[-1], T[n // 2]])], dtype=dtype)
        for label, aq in (("array", arr_q), ("reversed", arr_q[::-1].copy()), ("list", [x for x in arr_q]), ("one-element", arr_q[-4:-3].copy())):
            r.n += 1
            try:
                got = a[aq]
                gy = np.asarray(got.y); gt = np.asarray(got.t)
                want = np.stack([np.asarray(a[x].y) for x in np.asarray(aq)])
                if gy.shape != want.shape or gt.shape != (len(want),) or not np.array_equal(gt, np.asarray(aq)) or float(np.max(np.abs(gy.astype(LD) - want.astype(LD)))) > 64 * driver.eps_of(dtype) * max(1.0, float(np.max(np.abs(want.astype(np.float64))))):
                    bad = int(np.argmax(np.max(np.abs(gy.astype(LD) - want.astype(LD)), axis=-1))) if gy.shape == want.shape else -1
                    r.v("C19/time-lookup-array/%s" % name, "looking the trajectory up at an array of times returns the dense solution at each of them", dict(cs, query=label),
                        observed=dict(shape=list(gy.shape), worst_entry=bad, t=float(np.asarray(aq)[bad]) if bad >= 0 else None), expected="entry-wise equal to the scalar lookups")
                    break
            except Exception as ex:
                r.v("C19/time-lookup-array/%s" % name, "looking the trajectory up at an array of times returns the dense solution at each of them", dict(cs, query=label), observed=repr(ex)[:200], expected="states")
                break
    # ---- time slices spanning the whole run
    t0, tf = T[0], T[-1]
    slices = [("[:]", slice(None, None)), ("[t0:tf]", slice(t0, tf)), ("[t0:]", slice(t0, None)), ("[:tf]", slice(None, tf)),
              ("[t0:tf:2]", slice(t0, tf, 2)), ("[::3]", slice(None, None, 3))]
    if n > 1:
        for nm, sl in slices:
            r.n += 1
            try:
                got = a[sl]
                step = sl.step or 1
                if not (np.array_equal(np.asarray(got.t), T[::step]) and np.array_equal(np.asarray(got.y), Y[::step])):
                    r.v("C19/slice/%s" % name, "a time slice spanning the whole run returns the whole run", dict(cs, slice=nm),
                        observed=dict(rows=len(got.t), t=[float(x) for x in np.asarray(got.t)][:5]), expected=dict(rows=len(T[::step])))
            except Exception as e:
                r.v("C19/slice/%s" % name, "a time slice spanning the whole run returns the whole run", dict(cs, slice=nm), observed=repr(e)[:200], expected="rows")
    # ---- interior time slices (a weak reading of 'lookup by time', on top of the whole-run claim): the result is a contiguous stretch of the run in run
    #      order that contains every recorded sample lying between the two bounds and at most one sample beyond each bound
    if n > 3:
        dsg = 1.0 if T[-1] > T[0] else -1.0
        k1, k2 = n // 4, (3 * n) // 4
        bounds = [(T[k1], T[k2]), (T[k1] + (T[k1 + 1] - T[k1]) * dtype(0.5), T[k2] + (T[k2 - 1] - T[k2]) * dtype(0.5)), (T[1], T[n - 2]), (T[0], T[k2]), (T[k1], T[-1])]
        if float(T.min()) < 0.0 < float(T.max()):
            # a bound that is exactly zero (as the run's float type, a python float, a python int) in the interior of a run through t = 0
            for z in (dtype(0), 0.0, 0):
                bounds += [(z, T[-1]), (T[0], z), (z, T[k2]) if (T[k2] - 0) * dsg > 0 else (T[k1], z)]
        for (qa, qb) in bounds:
            r.n += 1
            try:
                got = a[slice(qa, qb)]
                gt = np.asarray(got.t)
                inside = [i for i in range(n) if (T[i] - qa) * dsg >= 0 and (qb - T[i]) * dsg >= 0]
                idx = [int(np.nonzero(T == x)[0][0]) for x in gt] if all(np.any(T == x) for x in gt) else None
                ok = idx is not None and idx == list(range(idx[0], idx[0] + len(idx))) if (idx is not None and len(idx)) else (idx is not None and not inside)
                if ok and len(idx):
                    ok = set(inside) <= set(idx) and len([i for i in idx if (T[i] - qa) * dsg < 0]) <= 1 and len([i for i in idx if (qb - T[i]) * dsg < 0]) <= 1
                if not ok:
                    r.v("C19/slice-interior/%s" % name, "a time slice returns the contiguous stretch of the run between its bounds (at most one sample beyond each)", dict(cs, slice=[float(qa), float(qb)]),
                        observed=dict(rows=len(gt), first=float(gt[0]) if len(gt) else None, last=float(gt[-1]) if len(gt) else None), expected=dict(inside=len(inside)))
                    break
            except Exception as e:
                r.v("C19/slice-interior/%s" % name, "a time slice returns the contiguous stretch of the run between its bounds", dict(cs, slice=[float(qa), float(qb)]), observed=repr(e)[:200], expected="rows")
                break
    r.out((case["method"], case["dense"], d, case["hist"], min(n, 12), bool(case.get("peek"))))
    r.samples.append(dict(case=case, rows=n, queries=len(qs) + len(outside)))
    return r


def run(ctx):
    ctx.rule = ("every recorded grid of the declared family (uniform / adaptive x forward / backward / through zero / negative times x one call / continued / extended beyond the configured span / partial / never run / reset, each multi-call history also with lookups (scalar, array, slice, index) made between its calls x {run along the configured span, run direction chosen by integrate(t) against the configured span} "
                "x dense on/off x dtypes) x ALL integer indices in [-len-2, len+2] x query times {every recorded time and its two floating-point neighbours, every midpoint exactly "
                "(tie) and +-2^j ulp for j in {0,1,2,10,20,30}, quarter points, outside both ends} x whole-run slices; reference = python list semantics with linear nearest search; "
                "distinct = distinct (method, dense, direction, history, #rows) classes")
    ctx.assumptions += ["ties between two equally near samples accept either neighbour (distances compared exactly in longdouble)",
                        "whole-run slices are written in run order ([t0:tf], open-ended, with a step)", "only python ints are 'integer indices'"]
    cases = []
    spans = [(0.0, 2.0), (2.0, 0.0), (1.0, -1.0), (-3.0, -1.0), (-1.0, -3.0), (-1.0, 1.0)]
    for m, dt0 in (("EulerSolver", 0.25), ("RK4Solver", 0.25), ("RK45CKSolver", 0.25), ("DOPRI45", 0.5)) + ((("ABAs5o6HSolver", 0.25), ("ImplicitMidpoint", 0.25), ("RadauIIA5", 0.25)) if not ctx.quick else ()):
        for sp in spans:
            for dense in (False, True):
                for hist in ("one", "continued", "extended", "partial", "none", "reset", "reset-partial", "failed", "one-ev", "continued-ev", "terminal-ev"):
                    for dn in (("float64",) if ctx.quick else ("float64", "float32", "longdouble")):
                        cases.append(dict(method=m, span=list(sp), dt0=dt0, dense=dense, hist=hist, dtype=dn))
                        if hist != "none":
                            cases.append(dict(method=m, span=list(sp), dt0=dt0, dense=dense, hist=hist, dtype=dn, against=True))
                        if hist in ("continued", "extended", "reset", "reset-partial", "continued-ev"):
                            cases.append(dict(method=m, span=list(sp), dt0=dt0, dense=dense, hist=hist, dtype=dn, peek=True))
                            if dense:
                                cases.append(dict(method=m, span=list(sp), dt0=dt0, dense=dense, hist=hist, dtype=dn, against=True, peek=True))
    # beside the convenient values: a step that is not a dyadic fraction and spans far from the origin of the time axis
    for m in ("RK4Solver", "RK45CKSolver"):
        for sp in ((0.0, 2.0), (1.0, -1.0), (1000.0, 1002.0), (-1000.0, -1002.0), (1002.0, 1000.0)):
            for dense in (False, True):
                for hist in ("one", "continued", "extended"):
                    for dn in (("float64", "float32") if ctx.quick else ("float64", "float32", "longdouble")):
                        cases.append(dict(method=m, span=list(sp), dt0=0.1, dense=dense, hist=hist, dtype=dn))
    grid.pmap(check_case, cases, ctx, horizon=300)


def replay(case):
    case = {k: v for k, v in case.items() if k not in ("index", "rows", "q", "slice")}
    return check_case(case)
