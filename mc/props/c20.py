"""C20 — evaluation counters and callbacks are exact (E1 over histories; plain integer reference counters)."""
import numpy as np

from mc.core.ctx import Res
from mc.core import explore
from mc.ref import driver
from mc.props import loopcommon as lc

LEVEL = "model_checking"
SETUPS = [("RK4Solver", 0.25, None), ("DOPRI45", 0.25, None), ("RK45CKSolver", 3.0, None), ("ABAs5o6HSolver", 0.25, None),
          ("ImplicitMidpoint", 0.25, "fd"), ("ImplicitMidpoint", 0.25, "user"), ("RICH:EulerSolver:3", 0.25, None), ("RadauIIA5", 0.25, "user"),
          # Richardson wrappers of a first-same-as-last pair and of an implicit base (their sub-integrators keep end slopes of their own)
          ("RICH:DOPRI45:2", 0.25, None), ("RICH:ImplicitMidpoint:2", 0.25, "user")]
T0, TF = 0.0, 2.0


class Boom(Exception):
    pass


def method_of(name):
    de, I = lc._imports()
    if name.startswith("RICH:"):
        _, base, k = name.split(":")
        return I.generate_richardson_integrator(lc.by_name(base), int(k))
    return lc.by_name(name)


class World(object):
    """the user's side: rhs / jac with plain integer counters, callbacks that log what they see"""

    def __init__(self, cfg):
        de, I = lc._imports()
        self.cfg = cfg
        self.rhs_completed = 0
        self.rhs_mark = 0          # value at construction end / last reset
        self.jac_user = 0
        self.jac_requests = 0
        self.jac_completed = 0
        self.jac_mark = (0, 0)     # (requests, completed) at the last reset
        self.fault_at = None
        w = self

        def f(t, y, **kw):
            if w.fault_at is not None and w.rhs_completed + 1 == w.fault_at:
                w.fault_at = None
                raise Boom()
            out = np.array([y[1], -y[0]], dtype=y.dtype)
            w.rhs_completed += 1
            return out

        def jac(t, y, **kw):
            w.jac_user += 1
            return np.array([[0.0, 1.0], [-1.0, 0.0]])
        self.f = f
        dtype = np.float64
        y0 = np.array([0.0, 1.0], dtype=dtype)
        rhs = de.DiffRHS(f)
        if cfg["jac"] == "user":
            rhs.hook_jacobian_call(jac)
        # count Jacobian *requests* at the seam the integrators use
        orig = de.DiffRHS.jac
        if not getattr(de.DiffRHS.jac, "_counting", False):
            def counting(self_, *a_, **k_):
                cnt = getattr(self_, "_verif_world", None)
                if cnt is not None:
                    cnt.jac_requests += 1
                out = orig(self_, *a_, **k_)
                if cnt is not None:
                    cnt.jac_completed += 1
                return out
            counting._counting = True
            de.DiffRHS.jac = counting
        tol = 1e-3 if cfg["method"].startswith("RICH") else 1e-6
        if cfg.get("prejac"):
            # the caller inspects the finite-difference Jacobian of the wrapped right-hand side at the start point BEFORE building the system (e.g. to judge
            # stiffness): these calls belong to the caller, the system's counters start after them
            rhs.jac(dtype(T0), y0.copy())
            self.rhs_mark = self.rhs_completed
        # 'against': the system is configured with the mirrored span and every integrate call names its target (the run goes against the configured direction)
        a = de.OdeSystem(rhs, y0=y0, t=(dtype(T0), dtype(2 * T0 - TF if cfg.get("against") else TF)), dt=dtype(cfg["dt0"]), rtol=dtype(tol), atol=dtype(tol), dense_output=bool(cfg["dense"]))
        a.equ_rhs.__dict__["_verif_world"] = self
        a.method = method_of(cfg["method"])
        self.a = a
        self.dtype = dtype
        self.since_reset = False


def ev_nonterm(t, y, **kw):
    return np.asarray(t - 0.6)


def ev_term(t, y, **kw):
    return np.asarray(y[0] - 0.8)


ev_term.is_terminal = True


def apply_op(w, op):
    de, I = lc._imports()
    a = w.a
    log = []

    def mk(tag):
        def cb(s):
            log.append((tag, len(s), float(s.t[-1]), float(s.y[-1][0])))
        return cb
    cbs = [mk("A"), mk("B")]
    obs = dict(op=list(op), rows0=len(a), log=log, raised=None, dt_set=None, pending=getattr(w, "pending_dt", None))
    if op[0] != "hopdt":
        w.pending_dt = None
    b = driver.Budget(20000)
    tgt = (w.dtype(TF),) if w.cfg.get("against") else ()
    try:
        k = op[0]
        if k == "int":
            a.integrate(*tgt, callback=cbs + [b])
        elif k == "intT":
            a.integrate(w.dtype(op[1]), callback=cbs + [b])
        elif k == "ev":
            a.integrate(*tgt, events=[ev_nonterm], callback=cbs + [b])
        elif k == "evterm":
            a.integrate(*tgt, events=[ev_nonterm, ev_term], callback=cbs + [b])
        elif k == "fault":
            w.fault_at = w.rhs_completed + op[1]
            a.integrate(*tgt, callback=cbs + [b])
        elif k == "reset":
            a.reset()
            w.rhs_mark = w.rhs_completed
            w.jac_mark = (w.jac_requests, w.jac_completed)
            w.since_reset = True
        elif k == "settol":
            # a setting changed between runs (the integrator is rebuilt): the counters keep counting
            a.rtol = a.rtol * w.dtype(0.5)
        elif k == "fresh":
            a.set_method(method_of(w.cfg["method"]), preserve_states=False)
        elif k == "hopdt":
            # a short hop (target nearer than one step) whose callbacks assign the step size, on its last recorded step too: the NEXT call starts with it
            dsg = 1.0 if TF > T0 else -1.0
            target = w.dtype(float(a.t[-1]) + dsg * op[1])
            if (TF - float(target)) * dsg <= 0:
                obs["disabled"] = True
            else:
                def setdt_always(s):
                    s.dt = w.dtype(op[2])
                a.integrate(target, callback=[cbs[0], setdt_always, cbs[1], b])
                w.pending_dt = (len(a), op[2])
        elif k == "intdt":
            st = dict(n=0)

            def setdt(s):
                st["n"] += 1
                if st["n"] == 2:
                    s.dt = w.dtype(op[1])
                    obs["dt_set"] = (len(s), op[1])
            a.integrate(*tgt, callback=[cbs[0], setdt, cbs[1], b])
    except de.exception_types.FailedIntegration as e:
        obs["raised"] = "budget" if driver.budget_hit(e) else ("boom" if isinstance(e.__cause__, Boom) else repr(e.__cause__)[:160])
    w.fault_at = None
    obs["rows1"] = len(a)
    return obs


def ops_fn(cfg, hist):
    used = [o[0] for o in hist]
    ops = [("int",), ("intT", 1.0), ("ev",), ("evterm",), ("fault", 7), ("fault", 30), ("reset",), ("intdt", 0.125), ("settol",), ("fresh",), ("hopdt", 0.03125, 0.125)]
    ops = [o for o in ops if not (o[0] in ("evterm", "intdt", "ev", "settol", "fresh", "hopdt") and o[0] in used)]
    if not hist:
        ops = [o for o in ops if o[0] not in ("settol", "fresh")]          # between runs: only after something has run
    if used.count("fault") >= 1:
        ops = [o for o in ops if o[0] != "fault"]
    if hist and hist[-1][0] == "reset":
        ops = [o for o in ops if o[0] != "reset"]
    return ops


def step(cfg, hist):
    r = Res()
    name = cfg["method"] + ("+jac" if cfg["jac"] == "user" else "")
    case = dict(cfg, hist=[list(o) for o in hist])
    w = World(cfg)
    a = w.a
    obs = None
    for op in hist:
        obs = apply_op(w, op)
        if obs["raised"] not in (None, "boom"):
            break
    r.n = 1
    if obs is not None and obs["raised"] not in (None, "boom"):
        if obs["raised"] == "budget":
            r.v("C20/runaway/%s" % name, "operations terminate", case, observed=dict(rows=len(a)), expected="terminates")
        else:
            r.add("raised"); r.out(("raised", name, obs["raised"][:40]))
        r.ret = None
        return r
    # ---- counters (checked in every state)
    want_nfev = w.rhs_completed - w.rhs_mark
    if int(a.nfev) != want_nfev:
        r.v("C20/nfev/%s" % name, "nfev equals the number of completed calls of the user's rhs since construction or the last reset", case,
            observed=dict(nfev=int(a.nfev), completed_calls=want_nfev), expected="equal")
    # Jacobian counter: number of requests, counted since construction or since the last reset (either convention)
    nj = int(a.njev)
    if nj not in (w.jac_requests, w.jac_completed, w.jac_requests - w.jac_mark[0], w.jac_completed - w.jac_mark[1]):
        r.v("C20/njev/%s" % name, "njev equals the number of Jacobian requests", case, observed=dict(njev=nj, requests=w.jac_requests, completed=w.jac_completed), expected="equal (a request that raised may or may not be counted)")
    if cfg["jac"] == "user" and w.jac_user not in (w.jac_requests, w.jac_completed):
        r.v("C20/user-jac-calls/%s" % name, "every Jacobian request is answered by the attached user Jacobian (one call each)", case,
            observed=dict(user_calls=w.jac_user, requests=w.jac_requests), expected="equal")
    # ---- callbacks of the last integrate-like operation
    if obs is not None and obs["op"][0] in ("int", "intT", "ev", "evterm", "fault", "intdt"):
        log = obs["log"]
        T = [float(x) for x in a.t]
        A = [e for e in log if e[0] == "A"]; B = [e for e in log if e[0] == "B"]
        # order: A before B at every step, same view
        tags = "".join(e[0] for e in log)
        ok_order = len(A) - len(B) in (0, 1) and tags[:2 * len(B)] == "AB" * len(B)
        if obs["raised"] is None and len(A) != len(B):
            ok_order = False
        if not ok_order:
            r.v("C20/callback-order/%s" % name, "callbacks are invoked in the order given", case, observed=tags[:40], expected="ABAB...")
        lens = [e[1] for e in A]
        if any(l2 <= l1 for l1, l2 in zip(lens[:-1], lens[1:])) or (lens and lens[0] <= obs["rows0"]):
            r.v("C20/callback-progress/%s" % name, "each invocation sees a strictly larger trajectory than the previous one", case, observed=dict(lens=lens[:12], rows_before=obs["rows0"]), expected="strictly increasing, starting above the rows before the call")
        for (_, ln, tl, yl) in A + B:
            if ln > len(T) or tl != T[ln - 1] or yl != float(a.y[ln - 1][0]):
                if ln <= len(T):
                    r.v("C20/callback-sees-recorded-state/%s" % name, "a callback runs after the new state is recorded and visible", case,
                        observed=dict(len_seen=ln, t_seen=tl, t_recorded=T[ln - 1]), expected="t[-1] is the row just recorded")
                    break
        new_rows = obs["rows1"] - obs["rows0"]
        if obs["raised"] is None:
            terminated = obs["op"][0] == "evterm" and a.integration_status.startswith("Integration terminated")
            if terminated:
                # landing sub-steps share one final invocation: every row before the landing has its own invocation
                if not (1 <= len(A) <= new_rows) or (lens and lens[-1] != obs["rows1"]):
                    r.v("C20/callback-count-terminal/%s" % name, "once per recorded step; the landing on a terminal event shares one final invocation", case,
                        observed=dict(invocations=len(A), new_rows=new_rows, last_len=lens[-1] if lens else None), expected="last invocation sees the landed state")
                else:
                    interior = [l for l in lens[:-1]]
                    if interior != list(range(obs["rows0"] + 1, obs["rows0"] + 1 + len(interior))):
                        r.v("C20/callback-count-terminal/%s" % name, "exactly once per recorded step before the landing", case, observed=dict(lens=lens), expected="consecutive")
                    else:
                        # how many of the new rows are ordinary steps?  A twin with the same history takes them without the terminal event (events do not
                        # influence the steps before the stop); the rows after them belong to the landing and share ONE invocation
                        w2 = World(cfg)
                        for op2 in hist[:-1]:
                            apply_op(w2, op2)
                        try:
                            tgt2 = (w2.dtype(TF),) if cfg.get("against") else ()
                            w2.a.integrate(*tgt2, events=[ev_nonterm], callback=[driver.Budget(20000)])
                            T2 = [float(x) for x in w2.a.t]
                            t_ev = T[-1]
                            dsg = 1.0 if TF > T0 else -1.0
                            ordinary = len([x for x in T2[obs["rows0"]:] if (t_ev - x) * dsg > 0])
                            if T2[:obs["rows0"] + ordinary] == T[:obs["rows0"] + ordinary] and new_rows - ordinary >= 1 and len(A) != ordinary + 1:
                                r.v("C20/callback-count-terminal/%s" % name, "the sub-steps taken to land on a terminal event share one final invocation", case,
                                    observed=dict(invocations=len(A), ordinary_steps=ordinary, landing_rows=new_rows - ordinary), expected=dict(invocations=ordinary + 1))
                        except Exception:
                            pass
            else:
                if lens != list(range(obs["rows0"] + 1, obs["rows1"] + 1)):
                    r.v("C20/callback-count/%s" % name, "callbacks are invoked exactly once per recorded step", case,
                        observed=dict(invocations=len(A), new_rows=new_rows, lens=lens[:12]), expected="one invocation per new row")
        # ... also when the assignment was made on the last step of the PREVIOUS call (a short hop): the first step of this call uses it
        if obs.get("pending") and obs["op"][0] in ("int", "intT", "ev", "fault") and lc.family(cfg["method"]) in ("fixed-explicit", "splitting") and obs["raised"] is None:
            ln, val = obs["pending"]
            if ln == obs["rows0"] and ln < len(T):
                nxt = abs(T[ln] - T[ln - 1])
                remaining = abs(T[-1] - T[ln - 1])
                if nxt != val and not (remaining <= val):
                    r.v("C20/callback-dt-next-call/%s" % name, "a step size assigned by a callback is the one used for the next step (here: the first step of the next call)", case,
                        observed=dict(next_step=nxt, assigned=val), expected="equal")
        # a step size assigned by a callback is the one used for the next step (fixed-step explicit / splitting, lattice values)
        if obs["dt_set"] and lc.family(cfg["method"]) in ("fixed-explicit", "splitting") and obs["raised"] is None:
            ln, val = obs["dt_set"]
            if ln < len(T):
                nxt = abs(T[ln] - T[ln - 1])
                remaining = abs(T[-1] - T[ln - 1])
                if nxt != val and not (remaining < val):
                    r.v("C20/callback-dt/%s" % name, "a step size assigned by a callback is the one used for the next step", case, observed=dict(next_step=nxt, assigned=val), expected="equal")
        if obs["dt_set"] and obs["raised"] is None:
            # every method: the step taken after the assignment goes on toward the target (the assigned magnitude is oriented by the run, not by the configured span)
            ln, val = obs["dt_set"]
            if ln < len(T) and (T[ln] - T[ln - 1]) * (TF - T0) <= 0:
                r.v("C20/callback-dt-direction/%s" % name, "a step size assigned by a callback is the one used for the next step (toward the target of the call)", case,
                    observed=dict(t_before=T[ln - 1], t_after=T[ln], assigned=val), expected="moves toward the target")
    r.out(("state", name, cfg["dense"], tuple(o[0] for o in hist)))
    r.ret = driver.canon(a, extra=(w.rhs_completed, w.jac_requests))
    if len(hist) == 2 and hash(str(case)) % 97 == 0:
        r.samples.append(dict(config=cfg, history=case["hist"], nfev=int(a.nfev), njev=int(a.njev), rows=len(a)))
    return r


def run(ctx):
    depth = 3
    ctx.rule = ("E1 breadth-first search to depth %d over {integrate(), integrate(1.0), integrate(events), integrate(terminal event), faulting integrate (rhs raises at its 7th / 30th call), "
                "reset, integrate with a dt-assigning callback} from 8 method set-ups (explicit, FSAL-shaped, with rejections, splitting, implicit with finite-difference / user Jacobian, "
                "Richardson) x dense on/off; reference = plain integer counters inside the user's functions and a log written by two callbacks; "
                "distinct = distinct (set-up, dense, op-name history) classes" % depth)
    ctx.assumptions += ["njev may count since construction or since the last reset (either convention; the statement gives the 'since the last reset' clause to the function counter only)",
                        "Jacobian requests are counted at DiffRHS.jac (the seam the integrators call)"]
    cfgs = [dict(method=m, dt0=dt0, jac=j, dense=d) for (m, dt0, j) in SETUPS for d in (False, True)]
    cfgs += [dict(method=m, dt0=dt0, jac=j, dense=False, against=True) for (m, dt0, j) in SETUPS]
    cfgs += [dict(method=m, dt0=dt0, jac=j, dense=True, prejac=True) for (m, dt0, j) in SETUPS if j == "fd"] + [dict(method="RadauIIA5", dt0=0.25, jac="fd", dense=False, prejac=True),
                                                                                                                  dict(method="RICH:ImplicitMidpoint:2", dt0=0.25, jac="fd", dense=False, prejac=True)]
    explore.bfs(ctx, cfgs, ops_fn, step, depth, section="bfs", horizon=600)


def replay(case):
    cfg = {k: v for k, v in case.items() if k not in ("hist", "_depth")}
    return step(cfg, tuple(tuple(o) for o in case["hist"]))
