"""Shared machinery for the event properties C07 (genuine/located/ordered/unique), C08 (none missed), C09 (terminal)."""
import numpy as np

from mc.ref import driver
from mc.props import loopcommon as lc

LD = np.longdouble
DT = lc.DT


# ------------------------------------------------------------------ constants
# Every system of the event cells is built with constants=CONSTS.  The right-hand sides and the event functions READ them: inside a library call (flag set by
# `in_library`) a constant that does not arrive falls back to a WRONG default, so dropping or mixing up the constants on the way to the user's functions changes
# the trajectory / the roots.  Outside (the oracles' own evaluations) the functions use the true values.
CONSTS = dict(gain=1.0, shift=0.0)
_WRONG = dict(gain=3.0, shift=0.37)
_STATE = dict(in_lib=False)


class in_library(object):
    def __enter__(self):
        _STATE["in_lib"] = True

    def __exit__(self, *a):
        _STATE["in_lib"] = False
        return False


def const(kw, name):
    if not _STATE["in_lib"]:
        return CONSTS[name]
    return kw[name] if name in kw else _WRONG[name]


# ------------------------------------------------------------------ problems with closed forms
class Lin(object):
    """y' = [1, -0.5]; y(t) = y0 + c (t - t0); y0 = [0.5, -1.0] at t0"""
    name = "lin"
    slope = (1.0, -0.5)

    def __init__(self, t0):
        self.t0 = t0
        self.y0 = (0.5, -1.0)

    def f(self, t, y, **kw):
        return np.array(self.slope, dtype=y.dtype) * const(kw, "gain")

    def y(self, t):
        return np.array([LD(self.y0[0]) + (LD(t) - LD(self.t0)) * LD(self.slope[0]), LD(self.y0[1]) + (LD(t) - LD(self.t0)) * LD(self.slope[1])], dtype=LD)

    def dy(self, t):
        return np.array(self.slope, dtype=LD)


class Osc(object):
    """y = [sin t, cos t]"""
    name = "osc"

    def __init__(self, t0):
        self.t0 = t0
        self.y0 = (float(np.sin(t0)), float(np.cos(t0)))

    def f(self, t, y, **kw):
        return np.array([y[1], -y[0]], dtype=y.dtype) * const(kw, "gain")

    def y(self, t):
        return np.array([np.sin(LD(t)), np.cos(LD(t))], dtype=LD)

    def dy(self, t):
        return np.array([np.cos(LD(t)), -np.sin(LD(t))], dtype=LD)


def problem(name, t0):
    return Lin(t0) if name == "lin" else Osc(t0)


# ------------------------------------------------------------------ event specs -> functions, exact roots
def make_event(spec, prob):
    """spec: dict(kind, tau, [tau2], s, dir, terminal).  g is s * h(t, y[, dy]) with exact roots known from the closed form."""
    s = spec["s"]
    kind = spec["kind"]
    tau = spec["tau"]
    if kind == "time":
        def g(t, y, **kw):
            return np.asarray(s * (t - tau - const(kw, "shift")))
    elif kind == "double":
        tau2 = spec["tau2"]
        def g(t, y, **kw):
            return np.asarray(s * (t - tau - const(kw, "shift")) * (t - tau2))
    elif kind == "state":
        level = float(prob.y(tau)[0])
        def g(t, y, **kw):
            return np.asarray(s * (y[0] - level - const(kw, "shift")))
    elif kind == "dstate":
        level = float(prob.dy(tau)[0])
        def g(t, y, dy, **kw):
            return np.asarray(s * (dy[0] - level - const(kw, "shift")))
        g.requires_dstate = True
    else:
        raise KeyError(kind)
    ret = spec.get("ret", "0d")
    if ret != "0d":
        # what an event function hands back: a python float, or a one-element array (what `y[:1] - level` gives)
        g0 = g
        conv = (lambda v: float(v)) if ret == "float" else (lambda v: np.reshape(v, (1,)))
        if kind == "dstate":
            def g(t, y, dy, **kw):
                return conv(g0(t, y, dy, **kw))
            g.requires_dstate = True
        else:
            def g(t, y, **kw):
                return conv(g0(t, y, **kw))
    g.direction = spec.get("dir", 0)
    g.is_terminal = bool(spec.get("terminal", False))
    g.spec = spec
    return g


def g_exact(spec, prob, t):
    """event function along the EXACT trajectory (longdouble) and its time derivative"""
    s = LD(spec["s"]); kind = spec["kind"]; tau = LD(spec["tau"]); t = LD(t)
    if kind == "time":
        return s * (t - tau), s
    if kind == "double":
        t2 = LD(spec["tau2"])
        return s * (t - tau) * (t - t2), s * (2 * t - tau - t2)
    if kind == "state":
        if prob.name == "lin":
            return s * (prob.y(t)[0] - prob.y(tau)[0]), s * LD(prob.slope[0])
        return s * (np.sin(t) - np.sin(tau)), s * np.cos(t)
    if kind == "dstate":
        if prob.name == "lin":
            return s * LD(0), s * LD(0)
        return s * (np.cos(t) - np.cos(tau)), -s * np.sin(t)


def exact_roots(spec, prob, ta, tb):
    """all exact roots of g along the exact trajectory in [min, max] (with a small margin)"""
    lo, hi = min(ta, tb), max(ta, tb)
    kind = spec["kind"]; tau = spec["tau"]
    cands = []
    if kind == "time":
        cands = [tau]
    elif kind == "double":
        cands = [tau, spec["tau2"]]
    elif kind == "state":
        if prob.name == "lin":
            cands = [tau]
        else:
            for k in range(-14, 15):
                cands += [tau + 2 * np.pi * k, np.pi - tau + 2 * np.pi * k]
    elif kind == "dstate":
        if prob.name == "osc":
            for k in range(-14, 15):
                cands += [tau + 2 * np.pi * k, -tau + 2 * np.pi * k]
    m = 1e-9
    out = []
    for c in sorted(c for c in cands if lo - m <= c <= hi + m):
        if not out or abs(c - out[-1]) > 1e-12:       # de-duplicate coinciding candidates without rounding them
            out.append(c)
    return out


# ------------------------------------------------------------------ running one cell
def run_system(case, events, callbacks=None, target=None):
    de, I = lc._imports()
    dtype = DT[case["dtype"]]
    t0, tf = case["span"]
    prob = problem(case["problem"], t0)
    y0 = np.array(prob.y0, dtype=dtype)
    tol = case.get("tol", 1e-8)
    if case.get("prelude"):
        # round trip on ONE system (oscillator only: its closed form needs no anchor): the system is built at tf, first runs tf -> t0 WITHOUT events, then
        # t0 -> tf with the events.  Everything the first leg leaves behind (pieces, caches, orientation) must not disturb the second one.
        y0 = np.array(problem(case["problem"], tf).y0, dtype=dtype)
    # 'against': the system is configured with the mirrored span; the direction of the run is chosen by integrate(t) alone
    tf_cfg = (2 * t0 - tf) if case.get("against") else tf
    buf = y0.copy()         # the caller reuses its buffer after construction
    if case.get("prelude"):
        t0, tf_cfg = tf, t0      # (configured along the first leg)
    a = de.OdeSystem(prob.f, y0=buf, t=(dtype(t0), dtype(tf_cfg)), dt=dtype(case["dt0"]), rtol=dtype(tol), atol=dtype(tol), dense_output=bool(case["dense"]), constants=dict(CONSTS))
    buf[...] = dtype(77.0)
    a.method = lc.by_name(case["method"])
    b = driver.Budget(case.get("budget", 20000))
    cbs = list(callbacks or []) + [b]
    raised = None
    if target is None and case.get("against"):
        target = dtype(tf)
    if case.get("rearmed") and events:
        # the SAME event function objects have served another system before, with OTHER attributes (direction reversed or switched on, terminal flag
        # toggled); the caller then sets them to what this cell asks for.  What an event function requests is read when it is monitored, not remembered.
        saved = [(getattr(g, "direction", None), getattr(g, "is_terminal", None)) for g in events]
        for g in events:
            g.direction = -g.direction if getattr(g, "direction", 0) else 1
            g.is_terminal = not getattr(g, "is_terminal", False)
        try:
            a0 = de.OdeSystem(prob.f, y0=y0.copy(), t=(dtype(t0), dtype(tf_cfg)), dt=dtype(case["dt0"]), rtol=dtype(tol), atol=dtype(tol), dense_output=False, constants=dict(CONSTS))
            a0.method = lc.by_name(case["method"])
            with in_library():
                a0.integrate(dtype(t0 + 0.0625 * (case["span"][1] - case["span"][0])), events=events, callback=[driver.Budget(5000)])
        except Exception:
            pass
        for g, (dr_, tm_) in zip(events, saved):
            if dr_ is None:
                del g.direction
            else:
                g.direction = dr_
            if tm_ is None:
                del g.is_terminal
            else:
                g.is_terminal = tm_
    try:
        with in_library():
            if case.get("prelude"):
                a.integrate(dtype(case["span"][0]), events=(events if case["prelude"] == "events" else None), callback=cbs)
                a._verif_skip = len(a) - 1                 # rows (and events) of the first leg: the oracles look at the second leg only
                a._verif_skip_events = len(a.events)
                a.dt = dtype(case["dt0"])
                a.integrate(dtype(case["span"][1]), events=events, callback=cbs)
            elif case.get("handover") is not None:
                # two successive calls with the same event functions: the first ends at (or next to) a crossing, the second goes on to the end
                a.integrate(dtype(case["handover"]), events=events, callback=cbs)
                a.integrate(dtype(tf) if target is None else target, events=events, callback=cbs)
            elif target is None:
                a.integrate(events=events, callback=cbs)
            else:
                a.integrate(target, events=events, callback=cbs)
    except de.exception_types.FailedIntegration as e:
        raised = "budget" if driver.budget_hit(e) else repr(e.__cause__)[:200]
    return a, prob, dtype, raised


def grid_error(a, prob):
    T = np.asarray(a.t); Y = np.asarray(a.y, dtype=LD)
    return max(float(np.max(np.abs(Y[k] - prob.y(T[k])))) for k in range(len(T)))


def hermite_from_rows(a, prob, k, dtype):
    from desolver.utilities.interpolation import CubicHermiteInterp
    T, Y = a.t, a.y
    return CubicHermiteInterp(T[k], T[k + 1], Y[k], Y[k + 1], prob.f(T[k], Y[k]), prob.f(T[k + 1], Y[k + 1]))


def containing_step(T, te, d, slack):
    """index k with te in [t_k, t_k+1] (direction d), tolerance slack; None if outside every step"""
    for k in range(len(T) - 1):
        lo, hi = (T[k], T[k + 1]) if d > 0 else (T[k + 1], T[k])
        if lo - slack <= te <= hi + slack:
            return k
    return None


# ------------------------------------------------------------------ the shared cell alphabet of C07 / C08
METHODS = ["EulerSolver", "RK4Solver", "RK45CKSolver", "ABAs5o6HSolver", "ImplicitMidpoint"]
LIN_SPANS = {(-1.0, 2.0): [-0.75, -0.5, 0.25, 0.5, 0.625, 1.0, 1.75], (2.0, -1.0): [-0.75, -0.5, 0.25, 0.5, 0.625, 1.0, 1.75],
             (-3.0, -1.0): [-2.75, -2.5, -2.25, -2.0, -1.625, -1.25], (-1.0, -3.0): [-2.75, -2.5, -2.25, -2.0, -1.625, -1.25]}
OSC_SPANS = {(0.0, 3.0): [0.4, 1.1, 2.3], (3.0, 0.0): [0.4, 1.1, 2.3], (-3.0, -0.5): [-2.6, -1.3, -0.8], (1.0, -2.0): [-1.3, -0.8, 0.4]}
OSC_SPANS_NEAR = dict(OSC_SPANS)
# the same alphabet far from the origin of the time axis (|t| >> 1, where one unit in the last place of t exceeds an absolute tolerance of a few eps)
LIN_SPANS.update({(-34.0, -31.0): [-33.75, -33.5, -32.75, -32.5, -32.375, -32.0, -31.25], (-31.0, -34.0): [-33.75, -33.5, -32.75, -32.5, -32.375, -32.0, -31.25],
                  (31.0, 34.0): [31.25, 31.5, 32.25, 32.5, 32.625, 33.0, 33.75]})
OSC_SPANS.update({(-35.0, -32.0): [-34.6, -33.9, -32.7], (-32.0, -35.0): [-34.6, -33.9, -32.7], (35.0, 32.0): [34.6, 33.9, 32.7]})


def event_sets(pname, taus, thorough):
    """list of event-spec lists (without scale/direction, which are separate axes)"""
    kinds = ["time", "state"] + (["dstate"] if pname == "osc" else [])
    sets = []
    for tau in taus:
        for k in kinds:
            sets.append([dict(kind=k, tau=tau)])
    n = len(taus)
    pairs = [(0, 1), (1, 2), (2, 3), (3, 4), (0, n - 1)] if n >= 5 else [(0, 1), (1, 2), (0, 2)]
    for (i, j) in pairs:
        sets.append([dict(kind="time", tau=taus[i]), dict(kind="state", tau=taus[j])])
        sets.append([dict(kind="state", tau=taus[j]), dict(kind="time", tau=taus[i])])
    # two functions with the same root
    sets.append([dict(kind="time", tau=taus[1]), dict(kind="state", tau=taus[1])])
    sets.append([dict(kind="state", tau=taus[-1]), dict(kind="time", tau=taus[-1])])
    # one function with two roots (same step / consecutive steps / far apart)
    for (i, j) in ([(2, 3), (3, 4), (1, 5)] if n >= 6 else [(0, 1), (1, 2)]):
        sets.append([dict(kind="double", tau=taus[i], tau2=taus[j])])
    # the same level watched by two functions of very different scale (they cross together EVERY time, also after each has fired before)
    sets.append([dict(kind="state", tau=taus[0]), dict(kind="state", tau=taus[0], smul=1e3)])
    sets.append([dict(kind="state", tau=taus[-1], smul=1e-3), dict(kind="state", tau=taus[-1]), dict(kind="time", tau=taus[1])])
    if pname == "osc":
        # a state function that has already fired meets a time function exactly at its second crossing (sin t = sin tau again at pi - tau)
        for tau in taus:
            for k in (-1, 0, 1):
                t2 = np.pi - tau + 2 * np.pi * k
                sets.append([dict(kind="state", tau=tau), dict(kind="time", tau=float(t2))])
                sets.append([dict(kind="time", tau=float(t2)), dict(kind="state", tau=tau)])
    if pname == "osc":
        # derivative-dependent functions next to each other and next to plain ones, in every position of the list
        sets.append([dict(kind="dstate", tau=taus[0]), dict(kind="state", tau=taus[1])])
        sets.append([dict(kind="state", tau=taus[1]), dict(kind="dstate", tau=taus[0])])
        sets.append([dict(kind="dstate", tau=taus[0]), dict(kind="time", tau=taus[1]), dict(kind="dstate", tau=taus[2])])
        sets.append([dict(kind="dstate", tau=taus[2]), dict(kind="dstate", tau=taus[0])])
    # three simultaneous
    sets.append([dict(kind="time", tau=taus[0]), dict(kind="state", tau=taus[1]), dict(kind="time", tau=taus[2])])
    sets.append([dict(kind="state", tau=taus[2]), dict(kind="time", tau=taus[1]), dict(kind="state", tau=taus[1])])
    if thorough:
        ks = list(range(min(n, 6)))
        sets.append([dict(kind="time" if i % 2 else "state", tau=taus[i]) for i in ks[:4]])
        sets.append([dict(kind="state" if i % 2 else "time", tau=taus[i]) for i in ks[:5]])
        sets.append([dict(kind="time" if i % 3 else "state", tau=taus[i]) for i in ks[:6]])
        sets.append([dict(kind="time", tau=taus[i]) for i in ks[:6]])
    return sets


def cells(quick):
    scales = [1e-15, 1e-6, 1e-3, 1.0, 1e3, 1e6] if quick else [1e-18, 1e-15, 1e-12, 1e-9] + [10.0 ** e for e in range(-6, 7)]
    out = []
    for pname, spans, dt0 in (("lin", LIN_SPANS, 0.5), ("osc", OSC_SPANS, 0.25)):
        for span, taus in spans.items():
            sets = event_sets(pname, taus, not quick)
            for si, es in enumerate(sets):
                for s in scales:
                    for dr in (0, 1, -1):
                        for m in METHODS:
                            for dense in (True, False):
                                if quick and len(es) == 1 and s in (1e-3, 1e3) and dr != 0:
                                    continue
                                evs = [dict({k_: v_ for k_, v_ in e.items() if k_ != "smul"},
                                            s=((s if (i % 2 == 0 or len(es) < 2) else s * (1e-3 if s >= 1 else 1e3)) if si % 3 == 2 else s) * e.get("smul", 1.0), dir=dr) for i, e in enumerate(es)]
                                # every third cell runs against the configured span; a declared sub-lattice also runs in longdouble
                                k_cell = len(out)
                                out.append(dict(problem=pname, span=list(span), dt0=dt0, method=m, dense=dense, dtype="float64", events=evs, tol=1e-8, against=(k_cell % 3 == 1)))
                                if quick and s == 1.0 and dr == 0 and m in ("RK4Solver", "RK45CKSolver") and dense:
                                    out.append(dict(problem=pname, span=list(span), dt0=dt0, method=m, dense=dense, dtype="longdouble", events=evs, tol=1e-8, against=(k_cell % 2 == 0)))
                                    if abs(span[0]) > 30:
                                        # single precision far from the origin: one unit in the last place of t is 4e-6, the coarsest time axis in the alphabet
                                        out.append(dict(problem=pname, span=list(span), dt0=dt0, method=m, dense=dense, dtype="float32", events=evs, tol=1e-4))
    # per-event attributes that DIFFER inside one list: requested directions (+1, -1, 0 in every rotation) and what the functions hand back
    # (0-d arrays, python floats, one-element arrays)
    for pname, spans, dt0 in (("lin", LIN_SPANS, 0.5), ("osc", OSC_SPANS, 0.25)):
        for span, taus in list(spans.items())[:4] if quick else spans.items():
            for es in [e_ for e_ in event_sets(pname, taus, False) if len(e_) >= 2][:(6 if quick else None)]:
                for rot in (0, 1, 2):
                    for rets in (("1el",), ("1el", "0d", "float"), ("float",), ("0d",)):
                        for m in METHODS:
                            for dense in (True, False):
                                if quick and (dense != (rot % 2 == 0) or (rets == ("float",) and rot)):
                                    continue
                                evs = [dict({k_: v_ for k_, v_ in e.items() if k_ != "smul"}, s=e.get("smul", 1.0), dir=(1, -1, 0)[(i + rot) % 3], ret=rets[i % len(rets)]) for i, e in enumerate(es)]
                                out.append(dict(problem=pname, span=list(span), dt0=dt0, method=m, dense=dense, dtype="float64", events=evs, tol=1e-8))
    # a crossing at or next to the end point of one integrate() call and the start of the next ('no crossing is reported twice', over successive calls)
    for pname, spans, dt0 in (("lin", LIN_SPANS, 0.5), ("osc", OSC_SPANS, 0.25)):
        for span, taus in list(spans.items())[:3] + ([] if quick else list(spans.items())[4:6]):
            for tau in (taus[1], taus[2]):
                for kind in ("time", "state"):
                    for off in (0.0, 1e-10, -1e-10, 1e-6, -1e-6, 0.03):
                        for dr in (0, 1, -1):
                            for m in METHODS:
                                for dense in (True, False):
                                    if quick and dr != 0 and (off not in (0.0, 1e-10) or m not in ("RK4Solver", "RK45CKSolver")):
                                        continue
                                    evs = [dict(kind=kind, tau=tau, s=1.0, dir=dr)]
                                    # (the offset is measured ALONG the run: positive = the first call ends just past the root, in either direction of time)
                                    out.append(dict(problem=pname, span=list(span), dt0=dt0, method=m, dense=dense, dtype="float64", events=evs, tol=1e-8, handover=tau + off * (1.0 if span[1] > span[0] else -1.0)))
    # event function objects that were monitored before, by another system, with other attributes
    for pname, spans, dt0 in (("lin", LIN_SPANS, 0.5), ("osc", OSC_SPANS, 0.25)):
        for span, taus in list(spans.items())[:2]:
            for es in ([dict(kind="time", tau=taus[1])], [dict(kind="state", tau=taus[1])], [dict(kind="state", tau=taus[0]), dict(kind="time", tau=taus[2])]):
                for dr in (0, 1, -1):
                    for m in METHODS:
                        for dense in (True, False):
                            if quick and not dense and m not in ("RK4Solver", "RK45CKSolver"):
                                continue
                            out.append(dict(problem=pname, span=list(span), dt0=dt0, method=m, dense=dense, dtype="float64", events=[dict(e, s=1.0, dir=dr) for e in es], tol=1e-8, rearmed=True))
    # ... and at the SECOND root of one function (it has fired before in the same run when the hand-over comes)
    for pname, spans, dt0 in (("lin", LIN_SPANS, 0.5), ("osc", OSC_SPANS, 0.25)):
        for span, taus in list(spans.items())[:2]:
            ta, tb = (taus[0], taus[2]) if span[1] > span[0] else (taus[2], taus[0])       # ta is met first, tb second
            for off in (0.0, 1e-10, -1e-10):
                for m in METHODS:
                    for dense in (True, False):
                        evs = [dict(kind="double", tau=ta, tau2=tb, s=1.0, dir=0)]
                        out.append(dict(problem=pname, span=list(span), dt0=dt0, method=m, dense=dense, dtype="float64", events=evs, tol=1e-8, handover=tb + off))
    # round trips on one system: a first leg without events in the opposite direction, then the leg that is judged
    for span, taus in OSC_SPANS_NEAR.items():
        sets = [[dict(kind=k, tau=tau)] for tau in taus for k in ("time", "state", "dstate")] + [[dict(kind="time", tau=taus[0]), dict(kind="state", tau=taus[1])], [dict(kind="state", tau=taus[2]), dict(kind="dstate", tau=taus[0])]]
        for es in sets:
            for s_ in ((1.0, 1e3, 1e-6) if quick else (1e-9, 1e-6, 1e-3, 1.0, 1e3, 1e6)):
                for m in METHODS:
                    # (dense output off: with it on, the two legs overlap in time and 'the dense solution at t_e' is ambiguous, as in C06)
                    evs = [dict(e, s=s_, dir=0) for e in es]
                    out.append(dict(problem="osc", span=list(span), dt0=0.25, method=m, dense=False, dtype="float64", events=evs, tol=1e-8, prelude=True))
                    out.append(dict(problem="osc", span=list(span), dt0=0.25, method=m, dense=False, dtype="float64", events=evs, tol=1e-8, prelude="events"))
    if not quick:
        extra = []
        for c in out:
            if c["events"][0]["s"] in (1e-6, 1.0, 1e6) and c["events"][0]["dir"] == 0 and c["method"] in ("RK4Solver", "RK45CKSolver"):
                for dn in ("float32", "longdouble"):
                    extra.append(dict(c, dtype=dn, tol=1e-4 if dn == "float32" else 1e-8))
        out += extra
    return out
