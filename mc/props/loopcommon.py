"""Shared alphabet for the loop-protocol properties (C03, C04): configurations, operations, history replay."""
import numpy as np

from mc.ref import driver

LD = np.longdouble
DT = driver.DTYPES
LATTICE = [-2.0, -1.0, -0.5, 0.0, 0.5, 1.0, 2.0]

FIXED_EXPLICIT = ["EulerSolver", "MidpointSolver", "HeunsSolver", "RalstonsSolver", "EulerTrapSolver", "RK4Solver", "RK5Solver"]
SPLITTING = ["SymplecticEulerSolver", "ABAs5o6HSolver", "BABs9o7HSolver"]
ADAPTIVE_EXPLICIT = ["RK45CKSolver", "DOPRI45", "HeunEulerSolver", "RK8713MSolver", "RK108Solver", "RK1412Solver"]
IMPLICIT_FIXED = ["BackwardEuler", "ImplicitMidpoint", "CrankNicolson", "GaussLegendre4", "GaussLegendre6", "LobattoIIIA2", "LobattoIIIA4",
                  "LobattoIIIB2", "LobattoIIIB4", "LobattoIIIC2", "RadauIA3", "RadauIA5", "RadauIIA3"]
IMPLICIT_ADAPTIVE = ["LobattoIIIC4", "RadauIIA5", "RadauIIA19"]


def _imports():
    import desolver as de
    from desolver import integrators as I
    return de, I


def by_name(name):
    de, I = _imports()
    if name.startswith("RICH:"):
        _, base, k = name.split(":")
        return I.generate_richardson_integrator(by_name(base), int(k))
    if name.startswith("SCRIPT:"):
        return scripted(name)
    for M in I.explicit_methods() + I.implicit_methods():
        if M.__name__ == name:
            return M
    raise KeyError(name)


SCRIPT_LAST = dict(calls=0)


def scripted(name):
    """'SCRIPT:<base>:<mode>:<k>=<frac>[,<k>=<frac>...]' - the real integrator <base> behind a scripted environment answer: on its k-th call (counted per
    constructed class, i.e. per fresh system) it takes only <frac> of the step it was asked for, exactly as an adaptive method does after rejecting a trial
    step.  mode 'keep': the shortened step is also what it proposes next; mode 'back': it proposes the originally requested step again.  The answers of all
    other calls are untouched.  (k = '' : no deviation, used to count the calls of the fault-free run.)"""
    _, base, mode, plan_s = name.split(":")
    plan = {int(kv.split("=")[0]): float(kv.split("=")[1]) for kv in plan_s.split(",") if kv}
    B = by_name(base)
    state = dict(n=0)
    SCRIPT_LAST["state"] = state

    class Scripted(B):
        def __call__(self, rhs, initial_time, initial_state, constants, timestep):
            k = state["n"]
            state["n"] += 1
            if k in plan:
                asked = timestep
                new_dt, step = super().__call__(rhs, initial_time, initial_state, constants, timestep * plan[k])
                return (asked if mode == "back" else new_dt), step
            return super().__call__(rhs, initial_time, initial_state, constants, timestep)
    Scripted.__name__ = B.__name__
    Scripted.__qualname__ = B.__qualname__
    return Scripted


def family(name):
    if name.startswith("SCRIPT:"):
        name = name.split(":")[1]
    for fam, names in (("fixed-explicit", FIXED_EXPLICIT), ("splitting", SPLITTING), ("adaptive-explicit", ADAPTIVE_EXPLICIT),
                       ("implicit-fixed", IMPLICIT_FIXED), ("implicit-adaptive", IMPLICIT_ADAPTIVE)):
        if name in names:
            return fam
    if name.startswith("RICH:"):
        return "richardson"
    return "other"


CONST_SLOPE = [1.0, -0.5]
Y0 = [0.5, -1.0]


# constants of the system: the right-hand sides read 'gain' (true value 1.0); inside a library call a constant that does not arrive falls back to a wrong value
CONSTS = dict(gain=1.0)
_LIB = dict(on=False)


class in_library(object):
    def __enter__(self):
        _LIB["on"] = True

    def __exit__(self, *a):
        _LIB["on"] = False
        return False


def _gain(kw):
    return (kw["gain"] if "gain" in kw else 3.0) if _LIB["on"] else 1.0


def rhs_of(kind):
    if kind == "const":
        def f(t, y, **kw):
            return np.array(CONST_SLOPE, dtype=y.dtype) * _gain(kw)
    elif kind == "osc":
        def f(t, y, **kw):
            return np.array([y[1], -y[0]], dtype=y.dtype) * _gain(kw)
    else:
        raise KeyError(kind)
    return f


def fresh(cfg):
    de, I = _imports()
    dtype = DT[cfg["dtype"]]
    f = rhs_of(cfg["rhs"])
    y0 = np.array(Y0, dtype=dtype)
    tol = cfg.get("tol", 1e-6)
    # the caller's buffers are reused after construction (a scan loop refilling one work array): the system must have taken its own copy
    buf = y0.copy(); tbuf = np.array([cfg["t0"], cfg["tf"]], dtype=dtype)
    a = de.OdeSystem(f, y0=buf, t=(tbuf[0], tbuf[1]), dt=dtype(cfg["dt0"]), rtol=dtype(tol), atol=dtype(tol),
                     dense_output=bool(cfg.get("dense", False)), constants=dict(CONSTS))
    buf[...] = dtype(77.0); tbuf[...] = dtype(-55.0)
    a.method = by_name(cfg["method"])
    return a, f, y0, dtype


def apply_op(a, op, dtype, budget_extra=20000):
    """returns an observation dict for the operation"""
    de, I = _imports()
    kind = op[0]
    obs = dict(op=list(op), i0=len(a) - 1, t_before=float(a.t[-1]), dt_before=float(a.dt))
    eta = kind in ("intE", "intTE")          # the same calls with the progress display switched on (it reads the time, the target and the step at every step)
    if eta:
        kind = kind[:-1]
    if kind in ("int", "intT", "intF", "intU"):
        if kind == "intF":
            tq = dtype(op[1]) / dtype(op[2])          # a target that is not representable in a lower precision (e.g. 1/3)
        if kind == "intU":
            # a target a few units in the last place away from the current time (op[1] ulps, signed)
            tq = dtype(a.t[-1])
            for _ in range(abs(int(op[1]))):
                tq = np.nextafter(tq, dtype(np.inf if op[1] > 0 else -np.inf))
            tq = dtype(tq)
        target = float(a.tf) if kind == "int" else (float(op[1]) if kind == "intT" else float(tq))
        obs["target"] = target
        obs["target_exact"] = a.tf if kind == "int" else (dtype(op[1]) if kind == "intT" else tq)
        dt_eff = abs(float(a.dt))
        lim = (8 * driver.min_steps(a.t[-1], target, dt_eff if dt_eff > 0 else 1.0) if kind != "intU" else 0) + budget_extra
        b = driver.Budget(lim)
        try:
            import contextlib, io
            with in_library(), contextlib.redirect_stderr(io.StringIO()):
                if kind == "int":
                    a.integrate(callback=b, eta=eta)
                elif kind in ("intF", "intU"):
                    a.integrate(tq, callback=b)
                else:
                    a.integrate(dtype(op[1]), callback=b, eta=eta)
            obs["raised"] = None
        except de.exception_types.FailedIntegration as e:
            obs["raised"] = "budget" if driver.budget_hit(e) else repr(e.__cause__)[:200]
        obs["i1"] = len(a) - 1
        obs["steps"] = b.n
    elif kind == "dt":
        a.dt = dtype(op[1])
    elif kind == "reset":
        a.reset()
    else:
        raise KeyError(kind)
    return obs
