"""Reference model of the time-stepping loop + shared harness pieces for OdeSystem-level checks.

* ref_grid        spec-level grid of a fixed-step run (exact on dyadic lattices)
* Budget          step-budget callback (the horizon of every integrate operation)
* canon           canonical hash of everything an OdeSystem carries into its future
* segment_invariants   C03's per-call invariants
* dense_invariants     C06's invariants on the DenseOutput of a system
* Trajectory      python-list reference for index / nearest-sample lookup (C19)
"""
import hashlib
import math

import numpy as np

LD = np.longdouble
DTYPES = {"float32": np.float32, "float64": np.float64, "longdouble": np.longdouble}


def eps_of(dtype):
    return float(np.finfo(dtype).eps)


# ------------------------------------------------------------------ reference grid
def ref_grid(t_cur, target, dt):
    """Times a fixed-step run must record after t_cur: t_cur + k*|dt|*dir while more than |dt| remains, then the target.
    (a remaining distance exactly equal to |dt| is an ordinary full step that lands on the target).  Pure python floats
    / exact on a dyadic lattice."""
    t_cur = float(t_cur); target = float(target); dt = abs(float(dt))
    if target == t_cur:
        return []
    d = 1.0 if target > t_cur else -1.0
    out = []
    t = t_cur
    while abs(target - t) > dt:
        t = t + d * dt
        out.append(t)
    out.append(target)
    return out


def min_steps(t_cur, target, dt):
    span = abs(float(target) - float(t_cur))
    dt = abs(float(dt))
    if span == 0:
        return 0
    if dt > span:
        dt = span / 2
    return int(math.ceil(span / dt))


class StepBudget(Exception):
    pass


class Budget(object):
    """callback that stops a run-away integration: raises StepBudget after `limit` invocations."""

    def __init__(self, limit):
        self.limit = int(limit)
        self.n = 0

    def __call__(self, system):
        self.n += 1
        if self.n > self.limit:
            raise StepBudget("more than %d steps" % self.limit)


def budget_hit(exc):
    c = exc
    for _ in range(4):
        if isinstance(c, StepBudget):
            return True
        c = getattr(c, "__cause__", None)
        if c is None:
            break
    return False


# ------------------------------------------------------------------ canonical state
def _b(h, v):
    if v is None:
        h.update(b"N")
    elif isinstance(v, (bool, int, str)):
        h.update(repr(v).encode())
    elif isinstance(v, float):
        h.update(np.float64(v).tobytes())
    else:
        a = np.ascontiguousarray(np.asarray(v))
        h.update(str(a.dtype).encode()); h.update(str(a.shape).encode())
        if a.dtype == np.longdouble and a.dtype.itemsize == 16 and np.finfo(np.longdouble).nmant == 63:
            # x87 extended precision: 10 value bytes + 6 padding bytes whose content is unspecified (equal values can differ there)
            h.update(a.reshape(-1).view(np.uint8).reshape(-1, 16)[:, :10].tobytes())
        else:
            h.update(a.tobytes())


def canon(a, extra=()):
    """sha1 over everything in DESIGN 1's table that can influence a future of the OdeSystem `a`."""
    h = hashlib.sha1()
    _b(h, a.t); _b(h, a.y); _b(h, a.dt); _b(h, a.t0); _b(h, a.tf)
    _b(h, a.method.__name__); _b(h, a.rtol); _b(h, a.atol)
    _b(h, a.integration_status[:60]); _b(h, bool(a.success)); _b(h, len(a))
    _b(h, a.staggered_mask if a.staggered_mask is None else np.asarray(a.staggered_mask))
    _b(h, len(a.events))
    for ev in a.events:
        _b(h, ev.t); _b(h, ev.y)
    _b(h, int(a.nfev)); _b(h, int(a.njev))
    sol = a.sol
    if sol is not None and sol.t_eval is not None:
        _b(h, np.stack([np.asarray(x) for x in sol.t_eval]) if len(sol.t_eval) else None)
        for p in sol.y_interpolants:
            for nm in ("t0", "t1", "p0", "p1", "m0", "m1"):
                _b(h, getattr(p, nm, None))
    else:
        _b(h, "nosol")
    ig = a.integrator
    sd = getattr(ig, "solver_dict", None) or {}
    for k in sorted(sd):
        _b(h, k); _b(h, sd[k])
    for nm in ("final_rhs", "initial_rhs", "dState", "dTime", "stage_values"):
        _b(h, getattr(ig, nm, None))
    for x in extra:
        _b(h, x)
    return h.hexdigest()


# ------------------------------------------------------------------ C03 segment invariants
def segment_invariants(r, key_prefix, case, t, y, i0, i1, target, t0_first, y0_first, dtype, ulps=64):
    """rows i0..i1 (inclusive; i0 = last row before the call) were produced by one successful call toward `target`."""
    e = eps_of(dtype)
    T = np.asarray(t); Y = np.asarray(y)
    if len(T) != len(Y):
        r.v(key_prefix + "/paired", "times and states paired one-to-one", case, observed=dict(len_t=len(T), len_y=len(Y)), expected="equal")
        return False
    if T.dtype != np.dtype(dtype) or Y.dtype != np.dtype(dtype):
        r.v(key_prefix + "/dtype", "stored values keep the precision of the initial state", case,
            observed=dict(t=str(T.dtype), y=str(Y.dtype)), expected=str(np.dtype(dtype)))
        return False
    if not (np.all(np.isfinite(T.astype(np.float64))) and np.all(np.isfinite(Y.astype(np.float64)))):
        r.v(key_prefix + "/finite", "every stored value is finite", case, observed="non-finite entries", expected="finite")
        return False
    if T[0] != t0_first or not np.array_equal(Y[0], y0_first):
        r.v(key_prefix + "/first-row", "first row is (t0, y0)", case, observed=dict(t=float(T[0])), expected=dict(t=float(t0_first)))
        return False
    if i1 == i0:
        return True
    seg = T[i0:i1 + 1].astype(LD)
    d = 1 if LD(target) > seg[0] else -1          # (in the working precision: a target a few longdouble ulps away equals the start in float64)
    diffs = np.diff(seg) * d
    if np.any(diffs <= 0):
        k = int(np.nonzero(diffs <= 0)[0][0])
        r.v(key_prefix + "/monotone", "time grid moves strictly monotonically toward the target", case,
            observed=dict(index=i0 + k, t=[float(x) for x in seg[max(0, k - 1):k + 3]]), expected="strictly %s" % ("increasing" if d > 0 else "decreasing"))
        return False
    tol = ulps * e * max(1.0, abs(float(seg[0])), abs(float(target)))
    over = (seg - LD(target)) * d             # target is passed in the working precision (a longdouble target keeps all its bits)
    if np.any(over > tol):
        k = int(np.argmax(over))
        r.v(key_prefix + "/overshoot", "no recorded step overshoots the target", case,
            observed=dict(index=i0 + k, t=float(seg[k]), target=float(target)), expected="not beyond target")
        return False
    if abs(float(seg[-1] - LD(target))) > tol:
        r.v(key_prefix + "/end", "grid ends at the target to within a few rounding units", case,
            observed=dict(t_last=float(seg[-1]), target=float(target), tol=tol), expected="|t[-1]-target| <= tol")
        return False
    return True


# ------------------------------------------------------------------ C06 dense-output invariants
def _array_queries(r, key_prefix, case, sol, qs, n, dtype, tol_rel):
    """array-valued queries agree entry by entry with scalar ones, whatever the order of the entries: as given (grouped by fraction), sorted there-and-back
    (first and last entry in the same piece), and a closed loop that starts and ends at an interior point of a middle piece"""
    srt = np.sort(qs)
    mid = srt[len(srt) // 2]
    for label, arr_q in (("as-given", qs), ("there-and-back", np.concatenate([srt, srt[::-1]])), ("closed-loop", np.concatenate([[mid], qs, [mid]]))):
        arr = np.asarray(sol(arr_q), dtype=LD)
        sc = np.stack([np.asarray(sol(q), dtype=LD) for q in arr_q])
        if arr.shape != sc.shape or np.max(np.abs(arr - sc)) > tol_rel * max(1.0, float(np.max(np.abs(sc.astype(np.float64))))):
            r.v(key_prefix + "/array-query", "array queries agree with scalar queries", dict(case, order=label),
                observed=dict(max_diff=float(np.max(np.abs(arr - sc))) if arr.shape == sc.shape else "shape"), expected="equal")
            return False
    return True


def dense_invariants(r, key_prefix, case, a, f, dtype, richardson=False, ulps=16, rtol_rich=None, consts=None, exact=None):
    """Invariants of DESIGN 4/C06 on system `a` whose rhs is f(t, y).  Returns True when all hold."""
    consts = consts or {}
    sol = a.sol
    T = np.asarray(a.t); Y = np.asarray(a.y)
    n = len(T)
    e = eps_of(dtype)
    if sol is None:
        r.v(key_prefix + "/missing", "dense output is kept", case, observed="sol is None", expected="DenseOutput")
        return False
    pieces = list(sol.y_interpolants)
    if n == 1:
        if len(pieces) != 0:
            r.v(key_prefix + "/count", "one piece per recorded step, none extra", case, observed=dict(pieces=len(pieces), rows=n), expected=0)
            return False
        return True
    te = [float(x) for x in (sol.t_eval or [])]
    if len(te) != len(pieces):
        r.v(key_prefix + "/count", "t_eval and interpolants paired", case, observed=dict(t_eval=len(te), pieces=len(pieces)), expected="equal")
        return False
    if any(b <= a_ for a_, b in zip(te[:-1], te[1:])):
        r.v(key_prefix + "/order", "dense-output pieces are ordered in time", case, observed=dict(t_eval=te[:12]), expected="strictly increasing")
        return False
    scale_t = max(1.0, float(np.max(np.abs(T.astype(np.float64)))))
    ttol = ulps * e * scale_t
    if not richardson:
        if len(pieces) != n - 1:
            r.v(key_prefix + "/count", "one piece per recorded step, none extra", case, observed=dict(pieces=len(pieces), rows=n), expected=n - 1)
            return False
        bykey = {}
        for p in pieces:
            bykey.setdefault((float(p.t0), float(p.t1)), p)
        for k in range(n - 1):
            p = bykey.get((float(T[k]), float(T[k + 1])))
            if p is None:
                # tolerate rounding-level differences in the interval ends
                for q in pieces:
                    if abs(float(q.t0) - float(T[k])) <= ttol and abs(float(q.t1) - float(T[k + 1])) <= ttol:
                        p = q
                        break
            if p is None:
                r.v(key_prefix + "/anchor", "every recorded step has its own piece", dict(case, step=k),
                    observed=dict(step=[float(T[k]), float(T[k + 1])], pieces=[(float(q.t0), float(q.t1)) for q in pieces][:10]), expected="piece with (t0,t1)=(t_k,t_k+1)")
                return False
            ys = max(1.0, float(np.max(np.abs(Y[k].astype(np.float64)))), float(np.max(np.abs(Y[k + 1].astype(np.float64)))))
            if np.max(np.abs(np.asarray(p.p0, dtype=LD) - Y[k])) > ulps * e * ys or np.max(np.abs(np.asarray(p.p1, dtype=LD) - Y[k + 1])) > ulps * e * ys:
                r.v(key_prefix + "/end-values", "piece end values are the recorded states", dict(case, step=k),
                    observed=dict(p0=np.asarray(p.p0, dtype=float), y_k=Y[k].astype(float), p1=np.asarray(p.p1, dtype=float), y_k1=Y[k + 1].astype(float)), expected="equal at rounding level")
                return False
            f0 = np.asarray(f(T[k], Y[k], **consts)); f1 = np.asarray(f(T[k + 1], Y[k + 1], **consts))
            fs = max(1.0, float(np.max(np.abs(f0.astype(np.float64)))), float(np.max(np.abs(f1.astype(np.float64)))))
            if p.m0 is None or p.m1 is None or np.max(np.abs(np.asarray(p.m0, dtype=LD) - f0)) > 4 * ulps * e * fs * ys or np.max(np.abs(np.asarray(p.m1, dtype=LD) - f1)) > 4 * ulps * e * fs * ys:
                r.v(key_prefix + "/end-slopes", "piece end slopes equal the right-hand side at the recorded states", dict(case, step=k),
                    observed=dict(m0=None if p.m0 is None else np.asarray(p.m0, dtype=float), f_k=f0.astype(float), m1=None if p.m1 is None else np.asarray(p.m1, dtype=float), f_k1=f1.astype(float)), expected="equal at rounding level")
                return False
            # queries inside the step are answered by this piece
            for frac in (0.25, 0.5, 0.75):
                q = T[k] + (T[k + 1] - T[k]) * dtype(frac)
                want = np.asarray(p(q), dtype=LD)
                got = np.asarray(sol(q), dtype=LD)
                if got.shape != want.shape or np.max(np.abs(got - want)) > ulps * e * ys:
                    r.v(key_prefix + "/lookup", "a query inside a step is answered by the interpolant of that step", dict(case, step=k, frac=frac),
                        observed=dict(q=float(q), got=got.astype(float), containing_piece=want.astype(float)), expected="equal")
                    return False
                gw = np.asarray(p.grad(q), dtype=LD); gg = np.asarray(sol.grad(q), dtype=LD)
                if gg.shape != gw.shape or np.max(np.abs(gg - gw)) > 4 * ulps * e * fs * ys:
                    r.v(key_prefix + "/lookup-grad", "gradient query inside a step is answered by that step's interpolant", dict(case, step=k, frac=frac),
                        observed=dict(q=float(q), got=gg.astype(float), containing_piece=gw.astype(float)), expected="equal")
                    return False
        # recorded times reproduce recorded states; array queries agree with scalar ones
        for k in range(n):
            got = np.asarray(sol(T[k]), dtype=LD)
            ys = max(1.0, float(np.max(np.abs(Y[k].astype(np.float64)))))
            if got.shape != Y[k].shape or np.max(np.abs(got - Y[k])) > ulps * e * ys:
                r.v(key_prefix + "/at-grid", "solution at a recorded time reproduces the recorded state", dict(case, row=k),
                    observed=dict(t=float(T[k]), got=got.astype(float), y=Y[k].astype(float)), expected="equal at rounding level")
                return False
        qs = np.concatenate([T[:-1] + (T[1:] - T[:-1]) * dtype(fr) for fr in (0.25, 0.75)] + [T])
        if not _array_queries(r, key_prefix, case, sol, qs, n, dtype, ulps * e):
            return False
    else:
        # Richardson wrappers: pieces come from sub-steps; they must chain continuously and reproduce the rows within tolerance
        tolr = rtol_rich
        for k in range(n):
            got = np.asarray(sol(T[k]), dtype=LD)
            ys = max(1.0, float(np.max(np.abs(Y[k].astype(np.float64)))))
            if np.max(np.abs(got - Y[k])) > tolr * ys:
                r.v(key_prefix + "/at-grid-richardson", "solution at a recorded time reproduces the recorded state to tolerance", dict(case, row=k),
                    observed=dict(t=float(T[k]), err=float(np.max(np.abs(got - Y[k]))), tol=tolr * ys), expected="<= tol")
                return False
        qs = np.concatenate([T[:-1] + (T[1:] - T[:-1]) * dtype(fr) for fr in (0.25, 0.75)] + [T])
        if not _array_queries(r, key_prefix, case, sol, qs, n, dtype, ulps * e):
            return False
        # every piece is a cubic Hermite piece of one sub-step of the wrapped method: its end slopes are the right-hand side at ITS OWN end points
        # (whatever the relation of those end points to the extrapolated rows)
        for j, p in enumerate(pieces):
            f0 = np.asarray(f(p.t0, np.asarray(p.p0), **consts)); f1 = np.asarray(f(p.t1, np.asarray(p.p1), **consts))
            fs = max(1.0, float(np.max(np.abs(f0.astype(np.float64)))), float(np.max(np.abs(f1.astype(np.float64)))))
            ys = max(1.0, float(np.max(np.abs(np.asarray(p.p0, dtype=np.float64)))), float(np.max(np.abs(np.asarray(p.p1, dtype=np.float64)))))
            if p.m0 is None or p.m1 is None or np.max(np.abs(np.asarray(p.m0, dtype=LD) - f0)) > 4 * ulps * e * fs * ys or np.max(np.abs(np.asarray(p.m1, dtype=LD) - f1)) > 4 * ulps * e * fs * ys:
                r.v(key_prefix + "/end-slopes-richardson", "the end slopes of a piece equal the right-hand side at the piece's end points", dict(case, piece=j),
                    observed=dict(t0=float(p.t0), t1=float(p.t1), m0_defect=None if p.m0 is None else float(np.max(np.abs(np.asarray(p.m0, dtype=LD) - f0))),
                                  m1_defect=None if p.m1 is None else float(np.max(np.abs(np.asarray(p.m1, dtype=LD) - f1)))), expected="equal at rounding level")
                return False
        if exact is not None:
            # between grid points the solution stays of the order of the integrator's own error (the error of the recorded rows) and of the tolerance: the
            # pieces of a wrapper are sub-steps of its base method, whose slopes are not f at the extrapolated rows, so the bound is wide (observed on the
            # unchanged tree: up to 5x the row error for 4th/5th-order bases) - a piece built from a slope that belongs to another state is off by O(h^2)
            rowerr = max(float(np.max(np.abs(Y[k].astype(LD) - np.asarray(exact(T[k]), dtype=LD)))) for k in range(n))
            for k in range(n - 1):
                for frac in (0.25, 0.5, 0.75):
                    q = T[k] + (T[k + 1] - T[k]) * dtype(frac)
                    err = float(np.max(np.abs(np.asarray(sol(q), dtype=LD) - np.asarray(exact(q), dtype=LD))))
                    if err > 1e3 * tolr / 50 + 50 * rowerr:
                        r.v(key_prefix + "/accuracy-richardson", "between grid points the dense solution is as accurate as the recorded rows allow", dict(case, step=k, frac=frac),
                            observed=dict(q=float(q), err=err, row_error=rowerr), expected="<= 1e3 tol + 50 x error of the rows")
                        return False
        if len(pieces) % (n - 1) != 0 and len(pieces) < n - 1:
            r.v(key_prefix + "/count", "Richardson pieces cover every recorded step", case, observed=dict(pieces=len(pieces), rows=n), expected=">= rows-1")
            return False
    return True


# ------------------------------------------------------------------ C19 reference
class Trajectory(object):
    """plain python list of (t, y) rows with list indexing semantics and linear nearest-sample search"""

    def __init__(self, t, y):
        self.rows = list(zip(list(t), list(y)))

    def __len__(self):
        return len(self.rows)

    def index(self, i):
        return self.rows[i]            # raises IndexError outside [-len, len)

    def nearest(self, q):
        """set of admissible row indices (ties accept either neighbour; a tie is one to within the rounding of a distance
        |t - q| formed in the precision of the recorded times: two units of that precision relative to the distance)"""
        d = [abs(float(LD(t) - LD(q))) for t, _ in self.rows]
        m = min(d)
        eps = float(np.finfo(np.asarray(self.rows[0][0]).dtype).eps) if np.asarray(self.rows[0][0]).dtype.kind == "f" else 2.0 ** -52
        return [i for i, x in enumerate(d) if x <= m * (1 + 2 * eps)]
