"""Right-hand-side 'programs' with known Lipschitz bounds, closed-form problems, Hamiltonians.

Every rhs is written with numpy ufuncs only, so the same function evaluates in float32, float64 and
longdouble (the reference side of an oracle casts the state to longdouble).
Constants come from a small list of admissible sets selected by VERIF_SEED (never random at run time).
"""
import numpy as np

LD = np.longdouble

# admissible constant sets: dyadic-ish numbers, moderate size (Lipschitz constants stay below ~8)
CONST_SETS = [
    dict(a=0.75, b=-0.5, c=1.25, d=0.375, w=[0.5, -1.25, 0.875, 1.5, -0.625, 0.25, -1.0, 0.75, 1.125]),
    dict(a=-0.625, b=0.875, c=1.0, d=-0.25, w=[1.25, 0.5, -0.75, -1.5, 0.375, 1.0, 0.625, -0.875, 0.5]),
    dict(a=1.125, b=0.25, c=-0.75, d=0.5, w=[-0.5, 1.0, 1.375, 0.25, -1.125, -0.75, 1.5, 0.625, -0.375]),
    dict(a=0.5, b=-1.0, c=0.625, d=-0.875, w=[0.875, -0.375, 1.0, -1.25, 0.75, 1.125, -0.5, -1.5, 0.25]),
    dict(a=-0.875, b=0.625, c=-1.25, d=0.75, w=[1.5, 0.75, -0.25, 0.5, 1.25, -1.0, -0.625, 0.375, 1.0]),
]


def consts(seed):
    return CONST_SETS[seed % len(CONST_SETS)]


def _mat(w, n, dtype):
    W = np.array([w[(i * n + j) % len(w)] * (0.5 if i != j else 1.0) for i in range(n) for j in range(n)], dtype=dtype).reshape(n, n)
    return W


def make_rhs(name, shape, seed=0):
    """returns (f, lipschitz_bound).  f(t, y, **kw) works for any float dtype and the given state shape."""
    k = consts(seed)
    n = int(np.prod(shape)) if shape else 1
    if name == "const":
        def f(t, y, **kw):
            return np.full_like(y, k["a"]) + 0 * y
        return f, 0.0
    if name == "linear_t":
        def f(t, y, **kw):
            W = _mat(k["w"], n, y.dtype)
            return (W @ y.reshape(n)).reshape(y.shape) + np.sin(y.dtype.type(t)) * y.dtype.type(k["b"])
        return f, float(np.abs(_mat(k["w"], n, np.float64)).sum(1).max())
    if name == "tanh_net":
        def f(t, y, **kw):
            W = _mat(k["w"], n, y.dtype)
            z = np.tanh((W @ y.reshape(n)) + y.dtype.type(t) * y.dtype.type(k["d"]))
            return (W.T @ z).reshape(y.shape) * y.dtype.type(0.5)
        L = float(np.abs(_mat(k["w"], n, np.float64)).sum(1).max() * np.abs(_mat(k["w"], n, np.float64)).sum(0).max() * 0.5)
        return f, L
    if name == "poly":
        def f(t, y, **kw):
            v = y.reshape(n)
            out = y.dtype.type(k["a"]) * v * np.roll(v, 1) - y.dtype.type(0.5) * v * v + y.dtype.type(k["d"]) * y.dtype.type(t)
            return out.reshape(y.shape)
        return f, 4.0 * (abs(k["a"]) + 1)       # valid for |y| <= 2
    if name == "logistic":
        def f(t, y, **kw):
            return y * (1 - y)
        return f, 5.0                             # |y| <= 2
    if name == "matrix":
        def f(t, y, **kw):
            M = np.array([[0.0, k["c"]], [-k["c"], k["a"] * 0.25]], dtype=y.dtype)
            return M @ y - y @ M + np.cos(y.dtype.type(t)) * y.dtype.type(k["b"])
        return f, 4 * (abs(k["c"]) + 1)
    if name in ("expgrow", "expdecay"):
        # steep, and with a large step the stage equations of an implicit method have NO solution (k = exp(h k) for h = 1): the step must not be accepted
        sg = 1.0 if name == "expgrow" else -1.0

        def f(t, y, **kw):
            return np.exp(y.dtype.type(sg) * y)
        return f, float(np.exp(3.0))             # |y| <= 3
    raise KeyError(name)


def initial_state(shape, dtype, seed=0):
    k = consts(seed)
    n = int(np.prod(shape)) if shape else 1
    v = np.array([k["w"][(3 * i + 1) % 9] * 0.5 for i in range(n)], dtype=dtype)
    return v.reshape(shape)
