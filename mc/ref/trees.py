"""Rooted trees in the Butcher-product representation, elementary weights, universal tree ODEs.

tau = u o v  (v = largest child subtree, u = the rest, same root).  id 0 = the single node.
    Phi(tau)   = Phi(u) * (A Phi(v))          (vector over stages)
    gamma(tau) = gamma(u) * gamma(v) * |tau| / |u|
Counts per order: 1, 1, 2, 4, 9, 20, 48, 115, 286, 719, 1842, 4766, 12486, 32973, ...
"""
import functools

import numpy as np

COUNTS = [1, 1, 2, 4, 9, 20, 48, 115, 286, 719, 1842, 4766, 12486, 32973, 87811, 235381, 634847, 1721159, 4688676]


@functools.lru_cache(maxsize=4)
def gen(maxn):
    """returns size, U, V, gamma (float64/longdouble), off {order: (lo, hi)}."""
    size = [1]; U = [-1]; V = [-1]
    off = {1: (0, 1)}
    vmax_by_size = {1: np.array([-1])}
    for n in range(2, maxn + 1):
        start = len(size)
        us = []; vs = []
        for s in range(1, n):
            m = n - s
            lo_v, hi_v = off[s]; lo_u, hi_u = off[m]
            vm = vmax_by_size[m]
            vr = np.arange(lo_v, hi_v)
            cnt = np.searchsorted(vm, vr, side='right')
            for v, c in zip(vr[cnt > 0], cnt[cnt > 0]):
                us.append(np.arange(lo_u, lo_u + c)); vs.append(np.full(c, v))
        us = np.concatenate(us); vs = np.concatenate(vs)
        U.extend(us.tolist()); V.extend(vs.tolist()); size.extend([n] * len(us))
        off[n] = (start, start + len(us))
        vmax_by_size[n] = vs.copy()
    size = np.array(size); U = np.array(U); V = np.array(V)
    gam = np.ones(len(size), dtype=np.longdouble)
    for n in range(2, maxn + 1):
        lo, hi = off[n]
        gam[lo:hi] = gam[U[lo:hi]] * gam[V[lo:hi]] * n / size[U[lo:hi]]
    for n in range(1, maxn + 1):
        assert off[n][1] - off[n][0] == COUNTS[n - 1], (n, off[n])
    return size, U, V, gam, off


def weights(A, b, maxn, c=None, dtype=np.longdouble):
    """Elementary weights Phi(tau).b for all trees up to order maxn.  Leaf factor A.1 or the given c."""
    size, U, V, gam, off = gen(maxn)
    A = np.asarray(A, dtype=dtype); b = np.asarray(b, dtype=dtype)
    s = A.shape[0]
    N = off[maxn][1]
    Phi = np.ones((N, s), dtype=dtype)
    APhi = np.empty((N, s), dtype=dtype)
    APhi[0] = A.sum(1) if c is None else np.asarray(c, dtype=dtype)
    for n in range(2, maxn + 1):
        lo, hi = off[n]
        Phi[lo:hi] = Phi[U[lo:hi]] * APhi[V[lo:hi]]
        APhi[lo:hi] = Phi[lo:hi] @ A.T
    return Phi @ b


def universal(maxn, time_leaves=False):
    """Universal tree ODE: y_tau' = prod_{children c} y_c, y_leaf' = 1; exact flow from 0 is t^|tau|/gamma.
    With time_leaves the single-node child factor is taken from t instead of y_leaf (exercises t + c_i h)."""
    size, U, V, gam, off = gen(maxn)
    N = off[maxn][1]
    ranges = [off[n] for n in range(2, maxn + 1)]

    def rhs(t, y, **kw):
        F = np.ones(N, dtype=y.dtype)
        if time_leaves:
            yy = y.copy(); yy[0] = t
        else:
            yy = y
        for lo, hi in ranges:
            F[lo:hi] = F[U[lo:hi]] * yy[V[lo:hi]]
        return F
    return rhs, N


def children(tau, U, V):
    ch = []
    x = tau
    while x != 0:
        ch.append(int(V[x])); x = int(U[x])
    return ch


def universal_jac(maxn):
    size, U, V, gam, off = gen(maxn)
    N = off[maxn][1]
    chl = [children(t, U, V) for t in range(N)]

    def jac(t, y, **kw):
        J = np.zeros((N, N), dtype=y.dtype)
        for tau in range(1, N):
            ch = chl[tau]
            for i, c in enumerate(ch):
                prod = 1.0
                for j, c2 in enumerate(ch):
                    if j != i:
                        prod = prod * y[c2]
                J[tau, c] += prod
        return J
    return jac


def universal_bi(maxn):
    """Bicoloured universal ODE for separable (partitioned) systems: state [q-rooted (N), p-rooted (N)];
    children of a q-rooted tree are p-rooted and vice versa.  Exact flow from 0: t^|tau|/gamma for both halves."""
    size, U, V, gam, off = gen(maxn)
    N = off[maxn][1]
    ranges = [off[n] for n in range(2, maxn + 1)]

    def rhs(t, y, **kw):
        yq, yp = y[:N], y[N:]
        Fq = np.ones(N, dtype=y.dtype); Fp = np.ones(N, dtype=y.dtype)
        for lo, hi in ranges:
            Fq[lo:hi] = Fq[U[lo:hi]] * yp[V[lo:hi]]
            Fp[lo:hi] = Fp[U[lo:hi]] * yq[V[lo:hi]]
        return np.concatenate([Fq, Fp])
    return rhs, N
