"""./check <ID> [--tier quick|thorough] [--replay <file>]

Exit codes: 0 property held on everything explored (KNOWN-FINDING lines allowed),
            1 at least one VIOLATION line, 2 harness error.
"""
import argparse
import importlib
import json
import os
import sys
import time
import warnings


def setup_paths():
    repo = os.environ.get("VERIF_REPO", "/repo")
    sys.path.insert(0, repo)
    warnings.simplefilter("ignore")
    # the library prints a banner to stderr at import; silence only that
    import io
    import contextlib
    with contextlib.redirect_stderr(io.StringIO()):
        import desolver
    here = os.path.realpath(desolver.__file__)
    if not here.startswith(os.path.realpath(repo) + os.sep):
        print("harness error: desolver imported from %s, expected under %s" % (here, repo), file=sys.stderr)
        sys.exit(2)
    return desolver


def main(argv=None):
    ap = argparse.ArgumentParser()
    ap.add_argument("pid")
    ap.add_argument("--tier", default=os.environ.get("VERIF_TIER", "quick"), choices=["quick", "thorough"])
    ap.add_argument("--replay", default=None)
    ap.add_argument("--only", default=None, help="debug: run only the named section(s) of the property (comma separated)")
    args = ap.parse_args(argv)
    pid = args.pid.upper()
    seed = int(os.environ.get("VERIF_SEED", "0") or 0)
    jobs = int(os.environ.get("VERIF_JOBS", "16") or 16)
    setup_paths()
    from mc.core.ctx import Ctx
    from mc.core import findings, evidence
    mod = importlib.import_module("mc.props.%s" % pid.lower())

    if args.replay:
        with open(args.replay) as fh:
            rec = json.load(fh)
        res = mod.replay(rec["case"])
        same = [v for v in res.viol if v["key"] == rec["key"]]
        print("replay of %s  key=%s" % (args.replay, rec["key"]))
        print("  recorded observed: %s" % json.dumps(rec.get("observed"), default=str)[:600])
        for v in res.viol:
            print("  now: key=%s clause=%s\n       observed=%s\n       expected=%s" % (
                v["key"], v["clause"], json.dumps(v["observed"], default=str)[:600], json.dumps(v["expected"], default=str)[:300]))
        if same:
            print("VIOLATION property=%s replay=%s" % (pid, args.replay))
            return 1
        print("replay: the recorded violation does not reproduce on the current tree" + (" (other violations above)" if res.viol else ""))
        return 1 if res.viol else 0

    ctx = Ctx(pid, args.tier, seed, jobs)
    ctx.level = mod.LEVEL
    ctx.only = set(args.only.split(",")) if args.only else None
    t0 = time.time()
    mod.run(ctx)
    wall = time.time() - t0
    n_unmatched, n_known, bykey = findings.process(ctx)
    if ctx.only:
        print("(debug --only run: evidence not written)")
        print("evaluations=%d outcomes=%d wall=%.1fs unmatched=%d known=%d" % (ctx.evaluations, len(ctx.outcomes), wall, n_unmatched, n_known))
        return 1 if n_unmatched else 0
    path = evidence.write(ctx, wall, n_unmatched, n_known, bykey)
    err = evidence.validate(path)
    if err:
        print("harness error: evidence file does not validate: %s" % err, file=sys.stderr)
        return 2
    print("%s tier=%s seed=%d: evaluations=%d distinct_outcomes=%d %sexhaustive=%s wall=%.1fs violations=%d known_finding_cases=%d" % (
        pid, args.tier, seed, ctx.evaluations, len(ctx.outcomes),
        "".join("%s=%s " % (k, v) for k, v in sorted(ctx.extra.items()) if isinstance(v, int)),
        ctx.exhaustive, wall, n_unmatched, n_known))
    return 1 if n_unmatched else 0


if __name__ == "__main__":
    sys.exit(main())
