import time, warnings, sys
import numpy as np
import desolver as de
import desolver.backend as D
warnings.simplefilter('ignore')
def rhs(t,y,**kw): return np.array([y[1], -y[0]])
for m in ['RK4','RK45','Euler','BackwardEuler','GaussLegendre4','ABAS5O6H','RadauIIA5','RK1412']:
    for span in [(0.,1.),(-5.,1.),(-10.,-5.),(10.,5.),(1.,-5.)]:
        a = de.OdeSystem(rhs, y0=np.array([1.,0.]), t=span, dt=0.25, dense_output=True, rtol=1e-6, atol=1e-6)
        a.method = m
        t0=time.time()
        try:
            a.integrate()
            st='ok'
        except Exception as e:
            st=repr(e)[:60]+' / '+repr(e.__cause__)[:80]
        dtt=time.time()-t0
        t=a.t
        print(m, span, st, len(t), 't_end',t[-1], 'maxstep', np.max(np.abs(np.diff(t))) if len(t)>1 else None, 'mono', bool(np.all(np.diff(t)*np.sign(span[1]-span[0])>0)), f'{dtt*1e3:.1f}ms')
