import warnings, numpy as np, desolver as de, time
warnings.simplefilter('ignore')
from desolver import integrators as I
LD=np.longdouble
def pend(t,y,**kw): return np.array([y[1],-np.sin(y[0])],dtype=y.dtype)       # q,p ; kick = p (second half)
def hh(t,y,**kw): # 2dof separable: H = (p1^2+p2^2)/2 + (q1^2+q2^2)/2 + q1^2 q2 - q2^3/3
    q1,q2,p1,p2=y; return np.array([p1,p2,-q1-2*q1*q2,-q2-q1*q1+q2*q2],dtype=y.dtype)
Jm=lambda n: np.block([[np.zeros((n,n)),np.eye(n)],[-np.eye(n),np.zeros((n,n))]])
def stepmap(M,f,y,h,dtype,tol):
    m=M((len(y),),dtype=np.dtype(dtype),rtol=dtype(tol),atol=dtype(tol))
    _,(dT,dY)=m(de.DiffRHS(f),dtype(0),y.astype(dtype),{},dtype(h))
    return y.astype(dtype)+dY, float(dT)
for M,dtype,tol,d in [(I.SymplecticEulerSolver,LD,1e-18,1e-6),(I.ABAs5o6HSolver,LD,1e-18,1e-6),(I.BABs9o7HSolver,LD,1e-18,1e-6),(I.ImplicitMidpoint,np.float64,1e-14,1e-5),(I.GaussLegendre4,np.float64,1e-14,1e-5),(I.GaussLegendre6,np.float64,1e-14,1e-5),(I.RK4Solver,LD,1e-18,1e-6),(I.LobattoIIIA4,np.float64,1e-14,1e-5)]:
  for f,y0 in [(pend,np.array([1.0,0.3])),(hh,np.array([0.1,0.2,0.3,-0.1]))]:
    for h in [0.5,-0.1]:
        n=len(y0)
        try:
            Mj=np.zeros((n,n),dtype=dtype)
            for j in range(n):
                e=np.zeros(n,dtype=dtype); e[j]=d
                yp,dT1=stepmap(M,f,y0+e,h,dtype,tol); ym,dT2=stepmap(M,f,y0-e,h,dtype,tol)
                Mj[:,j]=(yp-ym)/(2*dtype(d))
            S=Mj.T@Jm(n//2).astype(dtype)@Mj-Jm(n//2)
            y1,dT=stepmap(M,f,y0,h,dtype,tol); y2,_=stepmap(M,f,y1,-dT,dtype,tol)
            print(f"{M.__name__:22s} {f.__name__:5s} h={h:5} dT={dT:.3g} |MtJM-J|={float(np.abs(S).max()):.2e} reversibility={float(np.abs(y2-y0.astype(dtype)).max()):.2e}")
        except Exception as e: print(M.__name__,f.__name__,h,'EXC',repr(e)[:80])
