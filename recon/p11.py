import warnings, numpy as np, desolver as de
warnings.simplefilter('ignore')
from desolver import integrators as I
for M in I.implicit_methods():
    T=np.asarray(M.tableau_intermediate,dtype=float); B=np.asarray(M.tableau_final,dtype=float)
    A=T[:,1:]; b=B[0,1:]; s=len(b); one=np.ones(s)
    def R(z): return 1+z*b@np.linalg.solve(np.eye(s)-z*A,one)
    worst=0; wz=None
    for lr in np.arange(-3,8.01,0.25):
        for th in np.linspace(np.pi/2,3*np.pi/2,65):
            z=10**lr*np.exp(1j*th)
            z=complex(min(z.real,0.0),z.imag)
            r=abs(R(z))
            if r>worst: worst=r; wz=z
    ev=np.linalg.eigvals(A); nz=ev[np.abs(ev)>1e-12]
    # symplectic condition
    Mm=b[:,None]*A+(b[:,None]*A).T-np.outer(b,b)
    # real code on y'=lam y
    errs=[]
    for lam,h in [(-1.0,0.1),(-1.0,10.0),(-1e4,1.0),(-1e8,1.0),(1.0,-0.5)]:
        m=M((1,),dtype=np.dtype(np.float64),rtol=1e-12,atol=1e-12)
        f=lambda t,y,**kw: lam*y
        r=de.DiffRHS(f)
        try:
            _,(dT,dY)=m.step(r,np.float64(0),np.array([1.0]),{},np.float64(h))
            errs.append(f"{abs((1+dY[0])-R(lam*float(dT)).real):.1e}/{m.solver_dict['newton_iteration_success']}")
        except Exception as e: errs.append('EXC '+type(e).__name__)
    print(f"{M.__name__:16s} max|R| on LHP grid {worst:.12f} at {wz}  min Re(eig A nonzero) {nz.real.min() if len(nz) else None:.3g} sympl {np.abs(Mm).max():.1e} flag {M.symplectic} code-vs-R {errs}")
