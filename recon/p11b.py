import warnings, numpy as np, desolver as de, traceback
warnings.simplefilter('ignore')
from desolver import integrators as I
M=I.BackwardEuler
m=M((1,),dtype=np.dtype(np.float64),rtol=1e-12,atol=1e-12)
lam=-1.0
r=de.DiffRHS(lambda t,y,**kw: lam*y)
try:
    print(m.step(r,np.float64(0),np.array([1.0]),{},np.float64(0.1)))
except Exception: traceback.print_exc()
m=M((1,),dtype=np.dtype(np.float64),rtol=1e-12,atol=1e-12)
print(m(r,np.float64(0),np.array([1.0]),{},np.float64(0.1)), m.solver_dict.get('newton_iteration_success'))
for lam,h in [(-1e4,1.0),(-1e8,1.0),(-1.0,10.)]:
    m=M((1,),dtype=np.dtype(np.float64),rtol=1e-12,atol=1e-12)
    r=de.DiffRHS(lambda t,y,**kw: lam*y)
    try: print(lam,h,m(r,np.float64(0),np.array([1.0]),{},np.float64(h)), m.solver_dict.get('newton_iteration_success'))
    except Exception as e: print(lam,h,'EXC',repr(e)[:100])
