import warnings, itertools, numpy as np, desolver as de, time
warnings.simplefilter('ignore')
class Boom(Exception): pass
def run(method, span, k_fail, dense=True, events=False):
    cnt=[0]
    def rhs(t,y,**kw):
        cnt[0]+=1
        if cnt[0]==k_fail: raise Boom()
        return np.array([y[1], -y[0]])
    a=de.OdeSystem(rhs,y0=np.array([0.,1.]),t=span,dt=0.25,dense_output=dense,rtol=1e-6,atol=1e-6)
    a.method=method
    exc=None
    try: a.integrate()
    except Exception as e: exc=e
    return a,cnt,exc
for method in ['RK4','RK45','ABAS5O6H','BackwardEuler']:
    for span in [(0.,1.),(0.,-1.)]:
        a,cnt,exc=run(method,span,None)
        total=cnt[0]; ref_t=a.t.copy(); ref_y=a.y.copy()
        bad=[]
        t0=time.time()
        for k in range(2,total+1):
            a,cnt,exc=run(method,span,k)
            if exc is None: bad.append((k,'noexc')); continue
            ok = isinstance(exc,de.exception_types.FailedIntegration) and isinstance(exc.__cause__,Boom)
            n=len(a.t)
            prefix = np.array_equal(a.t,ref_t[:n]) and np.array_equal(a.y,ref_y[:n])
            nsol=len(a.sol.y_interpolants) if a.sol is not None and a.sol.t_eval is not None else 0
            soln_ok = (nsol==n-1)
            st='fail' in a.integration_status
            # resume
            try:
                a.integrate(); res_ok = np.allclose(a.t[-1],span[1]) and np.allclose(a.y[-1],ref_y[-1],atol=1e-4)
                same=np.array_equal(a.t,ref_t) and np.array_equal(a.y,ref_y)
            except Exception as e:
                res_ok=False; same=False
            if not (ok and prefix and soln_ok and st and res_ok): bad.append((k,ok,prefix,soln_ok,st,res_ok,same,n,nsol))
        print(method,span,'total rhs calls',total,'bad',len(bad),bad[:6],f'{time.time()-t0:.1f}s')
