import warnings, itertools, numpy as np, desolver as de, time
warnings.simplefilter('ignore')
class Boom(Exception): pass
def f0(t,y): return np.array([y[1], -y[0]])
def build(method,span,plan,dense=True,dt=0.7,kind=Boom):
    """plan: dict site->set of call indices at which to raise"""
    cnt={'rhs':0,'cb':0,'ev':0}
    armed=[True]
    def hit(site):
        cnt[site]+=1
        if armed[0] and cnt[site] in plan.get(site,()):
            raise kind()
    def rhs(t,y,**kw):
        hit('rhs'); return f0(t,y)
    def ev(t,y,**kw):
        hit('ev'); return y[0]-0.5
    def cb(s): hit('cb')
    a=de.OdeSystem(rhs,y0=np.array([0.,1.]),t=span,dt=dt,dense_output=dense,rtol=1e-6,atol=1e-6)
    a.method=method
    return a,cnt,armed,ev,cb
def dense_ok(a):
    sol=a.sol; T=a.t; Y=a.y; n=len(T)
    if sol is None or sol.t_eval is None: return n==1
    if len(sol.y_interpolants)!=n-1: return False
    pieces={(float(p.t0),float(p.t1)):p for p in sol.y_interpolants}
    for k in range(n-1):
        p=pieces.get((float(T[k]),float(T[k+1])))
        if p is None: return False
        if not (np.array_equal(p.p0,Y[k]) and np.array_equal(p.p1,Y[k+1]) and np.array_equal(p.m0,f0(T[k],Y[k])) and np.array_equal(p.m1,f0(T[k+1],Y[k+1]))): return False
    return True
for method in ['RK4','DOPRI45','RK45','ImplicitMidpoint']:
  for span in [(0.,2.)]:
    a,cnt,armed,ev,cb=build(method,span,{})
    a.integrate(events=[ev],callback=[cb]); tot=dict(cnt); ref_t=a.t.copy(); ref_y=a.y.copy()
    print(method,'sites',tot,'len',len(a),'dense_ok(nofault)',dense_ok(a))
    for site in ['rhs','ev','cb']:
        bad=[]
        for k in range(2 if site=='rhs' else 1,tot[site]+1):
            for kind in [Boom,KeyboardInterrupt]:
                a,cnt,armed,ev,cb=build(method,span,{site:{k}},kind=kind)
                exc=None
                try: a.integrate(events=[ev],callback=[cb])
                except BaseException as e: exc=e
                n=len(a.t)
                c1 = (isinstance(exc,KeyboardInterrupt) if kind is KeyboardInterrupt else (isinstance(exc,de.exception_types.FailedIntegration) and isinstance(exc.__cause__,Boom)))
                c2 = ('KeyboardInterrupt' in a.integration_status) if kind is KeyboardInterrupt else ('failed' in a.integration_status)
                c3 = np.array_equal(a.t,ref_t[:n]) and np.array_equal(a.y,ref_y[:n]) and not a.success
                c4 = dense_ok(a)
                armed[0]=False
                try:
                    a.integrate(events=[ev],callback=[cb]); c5 = abs(float(a.t[-1])-float(ref_t[-1]))<1e-6 and np.abs(a.y[-1]-ref_y[-1]).max()<1e-4 and dense_ok(a)
                    c6 = np.array_equal(a.t,ref_t) and np.array_equal(a.y,ref_y)
                except BaseException as e: c5=False; c6=False
                if not (c1 and c2 and c3 and c4 and c5): bad.append((k,kind.__name__[:4],c1,c2,c3,c4,c5,c6,n))
        print('   ',site,'faults',tot[site],'bad',len(bad),bad[:5])
