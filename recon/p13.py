import warnings, itertools, numpy as np, desolver as de, time
warnings.simplefilter('ignore')
def rhs(t,y,**kw): return np.array([y[1], -y[0]])
def fresh(method,dense=True):
    a=de.OdeSystem(rhs,y0=np.array([0.,1.]),t=(0.,2.),dt=0.25,dense_output=dense,rtol=1e-6,atol=1e-6); a.method=method; return a
def ev(t,y,**kw): return y[0]-0.5
ev.is_terminal=True
for method in ['RK4','RK45','DOPRI45','ABAS5O6H','BackwardEuler','RadauIIA5','RK1412']:
    ref=fresh(method); ref.integrate()
    out=[]
    # history 1: integrate, reset, integrate
    a=fresh(method); a.integrate(); a.reset(); 
    pristine = (len(a)==1 and float(a.t[0])==0. and a.nfev==0 and len(a.events)==0 and float(a.dt)==0.25 and a.integration_status.startswith('Integration has not'))
    solempty = (a.sol is None) or (a.sol.t_eval is None)
    a.integrate(); out.append(('reset-bitwise',np.array_equal(a.t,ref.t) and np.array_equal(a.y,ref.y),pristine,solempty))
    # history 2: split
    a=fresh(method); a.integrate(1.0); a.integrate(); out.append(('split-close',float(np.abs(a.y[-1]-ref.y[-1]).max()), float(a.t[-1])))
    # history 3: integrate at target does nothing
    n=len(a); nf=a.nfev; a.integrate(); out.append(('noop',len(a)==n and a.nfev==nf))
    # history 4: events then reset
    a=fresh(method); a.integrate(events=[ev]); a.reset(); a.integrate(); out.append(('after-event-reset',np.array_equal(a.t,ref.t) and np.array_equal(a.y,ref.y), len(a.events)))
    # history 5: method change then reset
    a=fresh(method); a.method='RK4'; a.integrate(0.5); a.method=method; a.reset(); a.integrate(); out.append(('method-change-reset',np.array_equal(a.t,ref.t) and np.array_equal(a.y,ref.y)))
    # history 6: dt change
    a=fresh(method); a.integrate(0.5); a.dt=0.01; a.reset(); a.integrate(); out.append(('dt-change-reset',np.array_equal(a.t,ref.t) and np.array_equal(a.y,ref.y), float(a.dt)))
    print(method,out)
