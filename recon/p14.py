import warnings, itertools, numpy as np
warnings.simplefilter('ignore')
from desolver.utilities.optimizer import brentsroot, brentsrootvec
fns={'lin':lambda x:x-0.3,'cubic':lambda x:(x-0.3)**3,'quad':lambda x:x**2-0.09,'exp':lambda x:np.exp(x)-np.exp(0.3),'steep':lambda x:np.tanh(50*(x-0.3)),'jump':lambda x:np.where(x<0.3,-1.0,1.0)*1.0}
for dt in [np.float32,np.float64,np.longdouble]:
  for name,f in fns.items():
    for s in [1e-6,1e-3,1,10,1e3,1e9]:
      for br in [(0.0,1.0),(1.0,0.0),(0.3,1.0),(0.0,0.3),(0.5,1.0)]:
        g=lambda x,f=f,s=s: dt(s)*f(x)
        a,b=dt(br[0]),dt(br[1])
        try:
            r,ok=brentsroot(g,[a,b])
            rv,okv=brentsrootvec([g],[a,b])
        except Exception as e:
            print('EXC',np.dtype(dt).name,name,s,br,repr(e)[:80]); continue
        has_root = (g(a)*g(b)<=0)
        inside = min(a,b)<=r<=max(a,b) if np.isfinite(r) else False
        closeness=abs(float(r)-0.3)
        flag=[]
        if has_root and not ok: flag.append('MISSED')
        if has_root and closeness>1e3*np.finfo(dt).eps: flag.append(f'FAR{closeness:.1e}')
        if not has_root and ok: flag.append('FALSEOK')
        if bool(ok)!=bool(okv[0]) or (np.isfinite(r) and abs(float(r)-float(rv[0]))>1e3*np.finfo(dt).eps): flag.append(f'VECDIFF {r} {rv[0]} {ok} {okv[0]}')
        if not inside and np.isfinite(r): flag.append('OUTSIDE')
        if flag: print(np.dtype(dt).name,name,s,br,float(r),bool(ok),flag)
