import warnings, itertools, numpy as np, time
warnings.simplefilter('ignore')
from desolver.utilities.optimizer import nonlinear_roots, newtontrustregion, hybrj
probs={
 'quad': (lambda x: x**2-2.0, lambda x: np.diag(2*x.reshape(-1)) ),
 'noroot': (lambda x: x**2+1.0, lambda x: np.diag(2*x.reshape(-1))),
 'cubic_sing': (lambda x: x**3, lambda x: np.diag(3*x.reshape(-1)**2)),
 'atan': (lambda x: np.arctan(x), lambda x: np.diag(1/(1+x.reshape(-1)**2))),
 'expm': (lambda x: np.exp(x)-1e-3, lambda x: np.diag(np.exp(x.reshape(-1)))),
}
for dt in [np.float64,np.longdouble]:
  for name,(f,j) in probs.items():
    for n in [1,3]:
      for x0v in [0.5,3.0,-20.0]:
        x0=np.full((n,),x0v,dtype=dt)
        for sname,solver in [('nonlinear_roots',lambda: nonlinear_roots(f,x0,jac=j,tol=dt(1e-10))),('nonlinear_roots_nojac',lambda: nonlinear_roots(f,x0,jac=None,tol=dt(1e-10))),('ntr',lambda: newtontrustregion(f,x0,jac=j,tol=dt(1e-10))),('hybrj',lambda: hybrj(f,x0,jac=j,tol=dt(1e-10)))]:
            try:
                x,info=solver(); succ=bool(info[0]); res=float(np.linalg.norm(f(x))); shp=x.shape==x0.shape
                flag=''
                if succ and res>1e-10*10*n: flag='FALSE-SUCCESS'
                if not shp: flag+=' SHAPE'
                if flag: print(np.dtype(dt).name,name,n,x0v,sname,'succ',succ,'res',res,flag)
            except Exception as e:
                print(np.dtype(dt).name,name,n,x0v,sname,'EXC',repr(e)[:80])
