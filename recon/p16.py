import warnings, itertools, numpy as np, desolver as de, time
warnings.simplefilter('ignore')
from desolver.utilities import JacobianWrapper
# C16: layout and accuracy
A=np.arange(6.).reshape(2,3)+1
f=lambda y: A@y
J=JacobianWrapper(f)(np.array([0.1,2.0,-30.0]))
print('linear R3->R2 shape',J.shape,'err',np.abs(J-A).max())
g=lambda y: np.array([[np.sin(y[0,0])*y[1,0], y[0,1]**2],[np.exp(y[1,1]*0.1), y[0,0]*y[1,1]],[y[0,1],1.0+0*y[0,0]]])
y=np.array([[0.3,1e-3],[5.0,-2.0]])
J=JacobianWrapper(g)(y); print('R2x2->R3x2 shape',J.shape)
exact=np.zeros((3,2,2,2)); 
exact[0,0,0,0]=np.cos(y[0,0])*y[1,0]; exact[0,0,1,0]=np.sin(y[0,0]); exact[0,1,0,1]=2*y[0,1]; exact[1,0,1,1]=0.1*np.exp(0.1*y[1,1]); exact[1,1,0,0]=y[1,1]; exact[1,1,1,1]=y[0,0]; exact[2,0,0,1]=1
print('  err',np.abs(J-exact).max())
# DiffRHS.jac time dependence
def rhs(t,y,**kw): return np.array([t*y[0]**2, y[0]*y[1]+t])
r=de.DiffRHS(rhs)
for t in [0.0,1.0,2.0,1.0,-3.0]:
    Jn=r.jac(t,np.array([0.5,2.0])); Je=np.array([[2*t*0.5,0],[2.0,0.5]]); print(' t',t,'err',np.abs(Jn-Je).max(), 'njev',r.njev,'nfev',r.nfev)
calls=[]
def uj(t,y,**kw): calls.append(t); return np.array([[2*t*y[0],0],[y[1],y[0]]])
r.hook_jacobian_call(uj); print(' hooked',np.abs(r.jac(1.5,np.array([0.5,2.0]))-np.array([[1.5,0],[2.0,0.5]])).max(),calls)
r.unhook_jacobian_call()
try: print(' unhooked',r.jac(1.5,np.array([0.5,2.0])))
except Exception as e: print(' unhooked EXC',repr(e))
r2=de.DiffRHS(rhs); r2.jac=uj; print(' assigned', r2.jac(2.0,np.array([0.5,2.0])), calls)
def rhs3(t,y,**kw): return rhs(t,y)
rhs3.jac=uj
r3=de.DiffRHS(rhs3); print(' attr', r3.jac(3.0,np.array([0.5,2.0])), calls)
