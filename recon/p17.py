import warnings, itertools, numpy as np
warnings.simplefilter('ignore')
from desolver.utilities import search_bisection, search_bisection_vec
from desolver.utilities.interpolation import CubicHermiteInterp
grid=np.arange(9)*1.0
qs=np.arange(-1,9.01,0.5)
bad=0;n=0;badv=0
ex=[]
for k in range(1,8):
    for comb in itertools.combinations(grid,k):
        arr=np.array(comb)
        ref=np.minimum(np.searchsorted(arr,qs,side='left'),k-1)
        try:
            vec=search_bisection_vec(arr,qs)
        except Exception as e:
            vec=None
        for q,r,i in zip(qs,ref,range(len(qs))):
            n+=1
            try: s=search_bisection(arr,q)
            except Exception as e: s=repr(e)
            if s!=r:
                bad+=1
                if len(ex)<5: ex.append(('scalar',comb,q,s,r))
            if vec is None or vec[i]!=r:
                badv+=1
                if len(ex)<10: ex.append(('vec',comb,q,None if vec is None else vec[i],r))
print(n,bad,badv,ex)
# hermite
rng=np.random.default_rng(1)
for (t0,t1) in [(0.,1.),(1.,0.),(-2.,3.),(3.,-2.)]:
    c=rng.normal(size=(4,3))
    p=lambda t: c[0]+c[1]*t+c[2]*t**2+c[3]*t**3
    dp=lambda t: c[1]+2*c[2]*t+3*c[3]*t**2
    H=CubicHermiteInterp(np.float64(t0),np.float64(t1),p(t0),p(t1),dp(t0),dp(t1))
    ts=np.linspace(-4,5,37)
    e=max(np.abs(H(t)-p(t)).max() for t in ts); eg=max(np.abs(H.grad(t)-dp(t)).max() for t in ts)
    print((t0,t1),e,eg)
