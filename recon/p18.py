import warnings, itertools, numpy as np, desolver as de, time
warnings.simplefilter('ignore')
from scipy.integrate import solve_ivp as sp_ivp
def f(t,y,k,m): return np.array([y[1], -k/m*y[0]])
r=de.solve_ivp(f,(0.,2.),np.array([0.,1.]),method='RK45',args=(4.0,1.0),rtol=1e-8,atol=1e-8)
print('no t_eval',r.t.shape,r.y.shape,r.y[:,0],r.status[:30],r.success,r.nfev,r.njev, 'err',np.abs(r.y[0,-1]-np.sin(2*2.)/2))
for te in [[0.,1.,2.],[0.5,1.5],[1.5,0.5,0.5],[2.0],[0.0]]:
    r=de.solve_ivp(f,(0.,2.),np.array([0.,1.]),method='RK45',t_eval=te,args=(4.0,1.0),rtol=1e-8,atol=1e-8)
    print('t_eval',te,'->',r.t,r.y.shape,'err',np.abs(r.y[0]-np.sin(2*r.t)/2).max(), 'len sys',len(r.ode_system))
for ms in [0.1,0.3]:
    r=de.solve_ivp(f,(0.,2.),np.array([0.,1.]),method='RK45',args=(4.0,1.0),rtol=1e-4,atol=1e-4,max_step=ms)
    print('max_step',ms,'max diff',np.abs(np.diff(r.t)).max())
    r=de.solve_ivp(f,(-2.,-0.5),np.array([0.,1.]),method='RK4',args=(4.0,1.0),max_step=ms)
    print('   RK4 (-2,-0.5) max_step',ms,'max diff',np.abs(np.diff(r.t)).max(), len(r.t))
def g(t,y): return -y
r=de.solve_ivp(g,(0.,1.),np.ones((2,3)),method='RK4'); print('matrix state',r.t.shape,r.y.shape, np.allclose(r.y[...,0],1))
r=de.solve_ivp(g,(0.,1.),np.ones((2,3)),method='RK4',t_eval=[0.5,1.0]); print('matrix state t_eval',r.t.shape,r.y.shape)
r=de.solve_ivp(g,(1.,0.),np.ones((2,)),method='RK4'); print('backward',r.t)
try:
    r=de.solve_ivp(g,(1.,0.),np.ones((2,)),method='RK4',t_eval=[0.5]); print('backward t_eval',r.t)
except Exception as e: print('backward t_eval EXC',repr(e))
r=de.solve_ivp(g,(0.,1.),np.ones((2,)),method=de.integrators.RK4Solver); print('class method ok',r.t[-1])
