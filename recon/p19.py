import warnings, itertools, numpy as np, desolver as de, time
warnings.simplefilter('ignore')
def rhs(t,y,**kw): return np.array([y[1], -y[0]])
for span in [(0.,1.),(0.,-1.)]:
    a=de.OdeSystem(rhs,y0=np.array([0.,1.]),t=span,dt=0.25,dense_output=False); a.method='RK4'; a.integrate()
    n=len(a); print(span,'t=',a.t)
    for i in range(-n-2,n+3):
        try: r=('ok',float(a[i].t))
        except IndexError: r=('IndexError',)
        except Exception as e: r=(type(e).__name__,)
        exp=('ok',float(a.t[i])) if -n<=i<n else ('IndexError',)
        if r!=exp: print('  int idx',i,'got',r,'expected',exp)
    its=[float(s.t) for s in a]; print('  iter ok',its==[float(x) for x in a.t])
    for q in np.linspace(min(span)-0.3,max(span)+0.3,17):
        got=float(a[float(q)].t); exp=float(a.t[np.argmin(np.abs(a.t-q))])
        if got!=exp and abs(abs(got-q)-abs(exp-q))>1e-12: print('  time lookup',round(q,3),'got',got,'nearest',exp)
    s=a[span[0]:span[1]]; print('  slice whole', len(s.t)==n, len(s.t))
    s=a[min(span):max(span)]; print('  slice min:max', len(s.t)==n, len(s.t))
