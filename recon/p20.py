import warnings, itertools, numpy as np, desolver as de, time
warnings.simplefilter('ignore')
def ev(t,y,**kw): return y[0]-0.5
ev.is_terminal=True
for method in ['RK4','RK45','DOPRI45','ABAS5O6H','BackwardEuler','RadauIIA5']:
  for dense in [False,True]:
    for events in [None,[ev]]:
        cnt=[0]
        def rhs(t,y,**kw):
            cnt[0]+=1; return np.array([y[1], -y[0]])
        a=de.OdeSystem(rhs,y0=np.array([0.,1.]),t=(0.,2.),dt=0.7,dense_output=dense,rtol=1e-6,atol=1e-6); a.method=method
        log=[]
        def cb1(s): log.append(('a',len(s),float(s.t[-1])))
        def cb2(s): log.append(('b',len(s),float(s.t[-1])))
        a.integrate(callback=[cb1,cb2],events=events)
        n=len(a)
        order_ok=all(log[i][0]=='a' and log[i+1][0]=='b' and log[i][1:]==log[i+1][1:] for i in range(0,len(log),2))
        lens=[l[1] for l in log[::2]]
        print(method,dense,'ev' if events else '--','nfev',a.nfev,'indep',cnt[0],'MATCH' if a.nfev==cnt[0] else 'MISMATCH','njev',a.njev,'len',n,'cb lens',lens,'order_ok',order_ok)
        a.reset(); c0=cnt[0]; a.integrate(); print('    after reset nfev',a.nfev,'indep since reset',cnt[0]-c0)
