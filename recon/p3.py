import warnings, numpy as np, desolver as de
warnings.simplefilter('ignore')
def rhs(t,y,**kw): return np.array([y[1], -y[0]])
for m,span,dt in [('GaussLegendre4',(1.,-5.),0.25),('RK45',(-10.,-5.),0.25),('RK45',(-6.,-5.),0.25),('RK4',(-6.,-5.),0.3),('RK45',(0.,-5.),0.25),('RK45',(-5.,0.),0.25),('RK45',(-5.,0.3),0.25)]:
    a = de.OdeSystem(rhs, y0=np.array([1.,0.]), t=span, dt=dt, dense_output=False, rtol=1e-6, atol=1e-6)
    a.method=m
    steps=[]
    try:
        a.integrate(callback=lambda s: steps.append(float(s.dt)))
        st='ok'
    except Exception as e: st=repr(e.__cause__)[:70]
    print(m,span,dt,st,'\n   t=',np.round(a.t,4)[:40],'\n   dts=',np.round(steps,4)[:40])
