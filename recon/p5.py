import warnings, itertools, numpy as np, desolver as de, time
warnings.simplefilter('ignore')
from desolver import integrators as I
probs={
 'osc':(lambda t,y,**k: np.array([y[1],-y[0]]), np.array([0.,1.]), lambda t: np.array([np.sin(t),np.cos(t)]), 1.0),
 'decay':(lambda t,y,**k: np.array([-0.5*y[0], -2.0*y[1]+y[0]]), np.array([1.,1.]), None,1.0),
 'logistic':(lambda t,y,**k: y*(1-y), np.array([0.1]), lambda t: np.array([0.1*np.exp(t)/(1+0.1*(np.exp(t)-1))]),1.0),
}
from scipy.linalg import expm
Adec=np.array([[-0.5,0],[1.0,-2.0]])
probs['decay']=(probs['decay'][0],probs['decay'][1],lambda t: expm(Adec*t)@np.array([1.,1.]),1.0)
adaptive=['RK1412','RK108','RK87','RK45','AHE','Dormand-Prince','LobattoIIIC4','RadauIIA5','RadauIIA19']
for m in adaptive:
  for pn,(f,y0,ex,_) in probs.items():
    row=[]
    for tol in [1e-3,1e-5,1e-7,1e-9,1e-11]:
      for dt0 in [1e-4,1.0,10.0]:
        a=de.OdeSystem(f,y0=y0.copy(),t=(0.,4.),dt=dt0,rtol=tol,atol=tol); a.method=m
        t0=time.time()
        try:
            a.integrate(); err=np.abs(a.y[-1]-ex(4.0)).max(); errmax=max(np.abs(y-ex(float(t))).max() for t,y in zip(a.t,a.y))
            row.append(f"{errmax/tol:.2g}/{len(a)}")
        except Exception as e: row.append('EXC:'+type(e.__cause__).__name__[:12])
        if time.time()-t0>20: row.append('SLOW')
    print(m,pn,row)
