import warnings, itertools, numpy as np, desolver as de, time
warnings.simplefilter('ignore')
from desolver import integrators as I
def f(t,y,**kw): return np.array([y[1], -y[0]+0.1*np.sin(t)])
def check(a,label):
    sol=a.sol; T=a.t; Y=a.y; n=len(T)
    te=np.array([float(x) for x in sol.t_eval]) if sol.t_eval is not None else np.array([])
    out={}
    out['npieces']=(len(sol.y_interpolants),n-1)
    out['sorted']=bool(np.all(np.diff(te)>0))
    # anchoring: find for each step k a piece with t0==T[k], t1==T[k+1]
    anch=0; slope=0; lookup=0; nq=0
    pieces={(float(p.t0),float(p.t1)):p for p in sol.y_interpolants if hasattr(p,'t0')}
    for k in range(n-1):
        p=pieces.get((float(T[k]),float(T[k+1])))
        if p is None: continue
        if np.array_equal(p.p0,Y[k]) and np.array_equal(p.p1,Y[k+1]): anch+=1
        if np.array_equal(p.m0,f(T[k],Y[k])) and np.array_equal(p.m1,f(T[k+1],Y[k+1])): slope+=1
        for fr in [0.25,0.5,0.75]:
            q=T[k]+fr*(T[k+1]-T[k]); nq+=1
            if np.array_equal(sol(q),p(q)): lookup+=1
    out['anchored']=(anch,n-1); out['slopes']=(slope,n-1); out['lookup']=(lookup,nq)
    out['gridrepro']=float(max(np.abs(sol(t)-y).max() for t,y in zip(T,Y)))
    print(label,out)
for M in ['RK4','RK45','DOPRI45','RK1412','ABAS5O6H','BackwardEuler','GaussLegendre4','RadauIIA5']:
    for span in [(0.,2.),(0.,-2.)]:
        a=de.OdeSystem(f,y0=np.array([0.,1.]),t=span,dt=0.25,dense_output=True,rtol=1e-6,atol=1e-6); a.method=M
        try: a.integrate()
        except Exception as e: print(M,span,'EXC',repr(e.__cause__)[:60]); continue
        check(a,(M,span))
R=I.generate_richardson_integrator(I.RK4Solver,3)
a=de.OdeSystem(f,y0=np.array([0.,1.]),t=(0.,2.),dt=0.25,dense_output=True,rtol=1e-6,atol=1e-6); a.set_method(R); a.integrate(); 
print('rich', len(a.t), len(a.sol.y_interpolants), float(max(np.abs(a.sol(t)-y).max() for t,y in zip(a.t,a.y))))
