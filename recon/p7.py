import warnings, itertools, numpy as np, desolver as de, time
warnings.simplefilter('ignore')
def f(t,y,**kw): return np.array([1.0])
def mk(c,s=1.0,d=0,kind='y'):
    if kind=='y':
        def ev(t,y,**kw): return s*(y[0]-c)
    else:
        def ev(t,y,**kw): return s*(t-c)
    ev.direction=d; ev.c=c; ev.kind=kind
    return ev
for method in ['Euler','RK45']:
  for span in [(0.,2.),(2.,0.)]:
    for cs in [(0.5,),(0.5,0.6),(0.5,0.75),(0.25,0.5,0.75),(1.0,),(0.5,0.5)]:
      for dense in [True,False]:
        a=de.OdeSystem(f,y0=np.array([span[0]]),t=span,dt=0.5,dense_output=dense,rtol=1e-8,atol=1e-8); a.method=method
        evs=[mk(c) for c in cs]
        try: a.integrate(events=evs); st='ok'
        except Exception as e: st=repr(e.__cause__)[:50]
        got=[(e.event.c,round(float(e.t),9)) for e in a.events]
        print(method,span,cs,'dense' if dense else 'nodense',st,'grid',np.round(a.t,3)[:8],'events',got)
