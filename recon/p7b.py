import warnings, itertools, numpy as np, desolver as de, time
warnings.simplefilter('ignore')
def f(t,y,**kw): return np.array([y[1], -y[0]])
def mk(kind,c,d=0,term=False):
    if kind=='y': g=lambda t,y,**kw: y[0]-c
    if kind=='t': g=lambda t,y,**kw: t-c
    if kind=='dy':
        g=lambda t,y,dy,**kw: dy[0]-c
        g.requires_dstate=True
    g.direction=d; g.is_terminal=term; g.kind=kind; g.c=c
    return g
for method,dt,tol in [('RK45',0.1,1e-9),('RK4',0.05,None),('RK1412',0.5,1e-12)]:
    a=de.OdeSystem(f,y0=np.array([0.,1.]),t=(0.,7.),dt=dt,dense_output=True,rtol=tol,atol=tol); a.method=method
    evs=[mk('y',0.5),mk('y',0.5,1),mk('y',0.5,-1),mk('t',3.0),mk('dy',0.25),mk('y',1.0)]
    a.integrate(events=evs)
    globerr=max(np.abs(y-np.array([np.sin(t),np.cos(t)])).max() for t,y in zip(a.t,a.y))
    print(method,'len',len(a),'global err',globerr)
    for e in a.events:
        g=e.event; t=float(e.t)
        if g.kind=='y': val=np.sin(t)-g.c; slope=np.cos(t)
        if g.kind=='t': val=t-g.c; slope=1
        if g.kind=='dy': val=np.cos(t)-g.c; slope=-np.sin(t)
        ysol=a.sol(e.t)
        # containing step
        k=np.searchsorted(a.t,t)
        print(f"   {g.kind} c={g.c} dir={g.direction:2d} t={t:.9f} exact_g={val:.2e} t_err~{abs(val/slope) if slope else None:.2e} slope_sign={np.sign(slope):+.0f} y==sol(t):{np.array_equal(ysol,e.y)}")
