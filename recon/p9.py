import warnings, itertools, numpy as np, desolver as de
warnings.simplefilter('ignore')
def rhs(t,y,**kw): return np.array([y[1], -y[0]])
def mkev(c,direction=0,terminal=False):
    def ev(t,y,**kw): return (y[0]-c)
    ev.direction=direction; ev.is_terminal=terminal
    return ev
for method in ['RK45','RK4','ABAS5O6H','BackwardEuler']:
  for dense in [True,False]:
    for span in [(0.,6.),(0.,-6.)]:
        a=de.OdeSystem(rhs,y0=np.array([0.,1.]),t=span,dt=0.1,dense_output=dense,rtol=1e-8,atol=1e-8)
        a.method=method
        ncb=[0]
        try:
            a.integrate(events=[mkev(0.25),mkev(0.5,terminal=True),mkev(0.75)],callback=lambda s: ncb.__setitem__(0,ncb[0]+1))
            st='ok'
        except Exception as e: st=repr(e.__cause__)[:60]
        ev=[(round(float(e.t),5),round(float(e.y[0]),5)) for e in a.events]
        print(method,dense,span,st,a.integration_status[:40],'tlast',float(a.t[-1]),'ylast',a.y[-1][0],'events',ev,'len',len(a),'ncb',ncb[0])
        if dense:
            te=np.array([float(x) for x in a.sol.t_eval]); print('    t_eval sorted?',bool(np.all(np.diff(te)>0)), 'n_interp',len(a.sol.y_interpolants),len(te), 'tail',np.round(te[-4:],4), 'head',np.round(te[:3],4))
            # check sol at recorded times
            err=max(np.abs(a.sol(t)-y).max() for t,y in zip(a.t,a.y)); print('    max|sol(t_k)-y_k|',err)
        # continue
        try:
            a.integrate()
            print('    continued ->',float(a.t[-1]),a.integration_status[:40],'mono',bool(np.all(np.diff(a.t)*np.sign(span[1]-span[0])>0)), 'len',len(a), 'nevents',len(a.events))
        except Exception as e: print('    continue failed',repr(e.__cause__)[:80])
