import warnings, itertools, numpy as np, desolver as de, time, hashlib, collections
warnings.simplefilter('ignore')
def f(t,y,**kw): return np.array([y[1], -y[0]])
def ev(t,y,**kw): return y[0]-0.5
ev.is_terminal=True
class Boom(Exception): pass
def fresh(method):
    a=de.OdeSystem(f,y0=np.array([0.,1.]),t=(0.,2.),dt=0.25,dense_output=True,rtol=1e-6,atol=1e-6); a.method=method; return a
def op_int(a): a.integrate()
def op_int1(a): a.integrate(1.0)
def op_intb(a): a.integrate(0.5)
def op_ev(a): a.integrate(events=[ev])
def op_dt(a): a.dt=0.125
def op_rtol(a): a.rtol=1e-4
def op_meth(a): a.method='RK4'
def op_tf(a): a.tf=3.0
def op_reset(a): a.reset()
def op_fault(a):
    n=[0]
    def cb(s):
        n[0]+=1
        if n[0]==2: raise Boom()
    try: a.integrate(callback=cb)
    except de.exception_types.FailedIntegration: pass
OPS=dict(int=op_int,int1=op_int1,intb=op_intb,ev=op_ev,dt=op_dt,rtol=op_rtol,meth=op_meth,tf=op_tf,reset=op_reset,fault=op_fault)
def build(method,hist):
    a=fresh(method)
    for o in hist: OPS[o](a)
    return a
def canon(a):
    h=hashlib.sha1()
    h.update(a.t.tobytes()); h.update(a.y.tobytes()); h.update(np.asarray(a.dt).tobytes()); h.update(np.asarray(a.tf).tobytes())
    h.update(str((a.method.__name__,a.rtol,a.atol,a.integration_status[:30],len(a.events),a.nfev)).encode())
    ig=a.integrator
    for k in sorted(ig.solver_dict):
        v=ig.solver_dict[k]; h.update(k.encode()); h.update(np.asarray(v).tobytes() if not isinstance(v,(int,float,bool,type(None))) else str(v).encode())
    for v in (ig.final_rhs,ig.dState,ig.dTime): h.update(b'N' if v is None else np.asarray(v).tobytes())
    if a.sol is not None and a.sol.t_eval is not None: h.update(np.stack(a.sol.t_eval).tobytes())
    return h.hexdigest()
for method in ['RK45']:
    t0=time.time()
    seen={canon(build(method,[])):[]}; frontier=collections.deque([[]]); trans=0; maxd=3; viol=0
    while frontier:
        hist=frontier.popleft()
        if len(hist)>=maxd: continue
        for o in OPS:
            nxt=hist+[o]
            try: a=build(method,nxt)
            except Exception as e:
                print('EXC',nxt,repr(e)[:80]); continue
            trans+=1
            # invariant: reset then integrate equals fresh with same settings
            k=canon(a)
            if k not in seen: seen[k]=nxt; frontier.append(nxt)
    print(method,'states',len(seen),'transitions',trans,f'{time.time()-t0:.1f}s')
