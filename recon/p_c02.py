import warnings, sys, time
import numpy as np
warnings.simplefilter('ignore')
import desolver as de
from desolver import integrators as I
rng=np.random.default_rng(0)
def mk(n,seed):
    r=np.random.default_rng(seed)
    W=r.normal(size=(n,n))*0.5; b=r.normal(size=n)
    def f(t,y,**kw):
        return (np.tanh(W.astype(y.dtype)@y+b.astype(y.dtype))+np.sin(t)*0.3).astype(y.dtype)
    return f
for M in I.explicit_methods()+I.implicit_methods():
    if not hasattr(M,'tableau_final'): continue
    worst=0; wb=0; info=[]
    for dtype in [np.float32,np.float64,np.longdouble]:
      for n in [1,3]:
        for h in [0.1,-0.1,0.5,-0.5]:
            f=mk(n,n)
            rhs=de.DiffRHS(f)
            y0=rng.normal(size=n).astype(dtype); t0=dtype(0.3); h_=dtype(h)
            m=M((n,),dtype=np.dtype(dtype),rtol=None,atol=None)
            try:
                dtn,(dT,dY)=m(rhs,t0,y0,{},h_)
            except Exception as e:
                info.append((np.dtype(dtype).name,n,h,type(e).__name__)); continue
            T=np.asarray(M.tableau_intermediate,dtype=dtype); B=np.asarray(M.tableau_final,dtype=dtype)
            K=m.stage_values  # (n, s)
            res=0
            for i in range(T.shape[0]):
                ki=f(t0+T[i,0]*dT, y0+dT*(K*T[i,1:]).sum(-1))
                res=max(res,np.abs(ki-K[:,i]).max())
            rb=np.abs(dY-dT*(K*B[0,1:]).sum(-1)).max()
            eps=np.finfo(dtype).eps
            tol=float(m.atol+m.rtol*np.abs(y0).max())*0.5 if m.is_implicit else 0
            info.append((np.dtype(dtype).name,n,h,float(dT),f"{float(res)/eps:.1f}eps",f"{float(rb)/eps:.1f}eps", f"tol/eps={tol/eps:.0f}", m.solver_dict.get('newton_iteration_success')))
    print(M.__name__); 
    for i in info: print('   ',i)
