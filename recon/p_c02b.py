import warnings, itertools, numpy as np, desolver as de
warnings.simplefilter('ignore')
from desolver import integrators as I
import desolver.utilities.optimizer as opt
real=opt.nonlinear_roots
def f(t,y,**kw): return np.array([y[1], -np.sin(y[0])])
for M in [I.ImplicitMidpoint,I.GaussLegendre4,I.RadauIIA5]:
  for h in [0.5,-0.5]:
    for script in ['', 'F','FF','FT F'.replace(' ',''),'FFFF','ALL']:
        calls=[0]
        def fake(*a,**k):
            x,(s,*rest)=real(*a,**k)
            i=calls[0]; calls[0]+=1
            if script=='ALL' or (i<len(script) and script[i]=='F'): s=False
            return x,(s,*rest)
        opt.nonlinear_roots=fake
        m=M((2,),dtype=np.dtype(np.float64),rtol=1e-8,atol=1e-8)
        hs=[]
        orig=m.step
        def spy(rhs,t,y,c,ts,orig=orig): hs.append(float(ts)); return orig(rhs,t,y,c,ts)
        m.step=spy
        try:
            dtn,(dT,dY)=m(de.DiffRHS(f),np.float64(0),np.array([1.0,0.3]),{},np.float64(h))
            out=f"accepted dT={float(dT):.4g} last_success={m.solver_dict.get('newton_iteration_success')}"
        except Exception as e: out='EXC '+type(e).__name__
        opt.nonlinear_roots=real
        print(M.__name__,h,repr(script),'solver calls',calls[0],'requested h seq',np.round(hs,4)[:8],out)
