import warnings, itertools, numpy as np, desolver as de
warnings.simplefilter('ignore')
def rhs(t,y,**kw): return np.array([y[1], -y[0]])
# exact: y0=[0,1] -> y=[sin t, cos t]
def mkev(scale,c,direction=0,terminal=False,kind='y0'):
    def ev(t,y,**kw):
        if kind=='y0': return scale*(y[0]-c)
        if kind=='t': return scale*(t-c)
    ev.direction=direction; ev.is_terminal=terminal
    return ev
for method in ['RK45','RK4','ABAS5O6H']:
  for dense in [True,False]:
    for span in [(0.,6.),(0.,-6.),(-6.,0.)]:
      for scale in [1.0,10.0,1e3,1e-3,1e6]:
        a=de.OdeSystem(rhs,y0=np.array([np.sin(span[0]),np.cos(span[0])]),t=span,dt=0.1,dense_output=dense,rtol=1e-8,atol=1e-8)
        a.method=method
        try:
            a.integrate(events=[mkev(scale,0.5)])
            st='ok'
        except Exception as e: st=repr(e.__cause__)[:60]
        # expected crossings of sin t = 0.5 in span
        lo,hi=min(span),max(span)
        k=np.arange(-3,4)
        exp=np.concatenate([np.pi/6+2*np.pi*k, 5*np.pi/6+2*np.pi*k]); exp=np.sort(exp[(exp>lo)&(exp<hi)])
        got=np.array([float(e.t) for e in a.events])
        # sign-change count on grid
        g=a.y[:,0]-0.5; sc=int(np.sum(g[:-1]*g[1:]<0))
        print(method,dense,span,scale,st,'expected',len(exp),'gridsignchanges',sc,'got',len(got), 'maxerr', (np.abs(np.sort(got)-exp).max() if len(got)==len(exp) and len(exp) else None))
