import warnings, sys
import numpy as np
import desolver as de
import desolver.backend as D
from desolver import integrators as I
warnings.simplefilter('ignore')
LD=np.longdouble
# pendulum-like separable nonlinear: q'=p, p'=-sin(q) ; reference by RK1412 tiny steps in longdouble
def rhs(t,y,**kw): return np.array([y[1], -np.sin(y[0])],dtype=y.dtype)
def ref(y0,h):
    # integrate with many small steps of RK1412 fixed
    integ=I.RK1412Solver((2,),dtype=np.dtype(LD),rtol=1e-30,atol=1e-30)
    class R:
        def __call__(s,t,y,**kw): return rhs(t,y)
    n=8
    y=y0.copy(); t=LD(0)
    for i in range(n):
        _, (dt_,dy)=integ.step(R(),t,y,{},h/n)
        y=y+dy; t=t+dt_
    return y
y0=np.array([1.0,0.3],dtype=LD)
meths=I.explicit_methods()+I.implicit_methods()
for M in meths:
    kw=dict(dtype=np.dtype(LD),rtol=LD(1e-17),atol=LD(1e-17))
    errs=[]
    hs=[LD(0.4),LD(0.2),LD(0.1),LD(0.05)]
    for h in hs:
        m=M((2,),**kw)
        rr=de.DiffRHS(rhs)
        try:
            _,(dt_,dy)=m.step(rr,LD(0),y0,{},h)
        except Exception as e:
            errs.append(np.nan); continue
        errs.append(float(np.max(np.abs(y0+dy-ref(y0,h)))))
    errs=np.array(errs)
    with np.errstate(all='ignore'):
        p=np.log2(errs[:-1]/errs[1:])-1
    print(f"{M.__name__:24s} declared {M.__order__:4.1f} observed local-1: {np.round(p,2)} errs {errs}")
