import warnings, numpy as np, desolver as de, signal
warnings.simplefilter('ignore')
def f(t,y,**kw): return np.array([y[1], -y[0]])
class TO(Exception): pass
def h(*a): raise TO()
signal.signal(signal.SIGALRM,h)
for method in ['RK4','RK45']:
    for tgt in [1.0,1.75,-1.0]:
        a=de.OdeSystem(f,y0=np.array([0.,1.]),t=(0.,2.),dt=0.25); a.method=method; a.integrate(); n=len(a)
        signal.alarm(5)
        try:
            a.integrate(tgt); st='ok'
        except TO: st='TIMEOUT(5s)'
        except Exception as e: st=repr(e.__cause__)[:60]
        signal.alarm(0)
        print(method,'then integrate(',tgt,')',st,'new segment',np.round(a.t[n-1:n+8],3),'len',len(a))
