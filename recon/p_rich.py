import warnings, numpy as np, desolver as de
warnings.simplefilter('ignore')
from desolver import integrators as I
LD=np.longdouble
def rhs(t,y,**kw): return np.array([y[1], -np.sin(y[0])],dtype=y.dtype)
def ref(y0,h):
    integ=I.RK1412Solver((2,),dtype=np.dtype(LD),rtol=1e-30,atol=1e-30)
    y=y0.copy(); t=LD(0); n=8
    for i in range(n):
        _, (dt_,dy)=integ.step(de.DiffRHS(rhs),t,y,{},h/n); y=y+dy; t=t+dt_
    return y
y0=np.array([1.0,0.3],dtype=LD)
for base in [I.EulerSolver,I.MidpointSolver,I.RK4Solver,I.SymplecticEulerSolver,I.ImplicitMidpoint]:
    for k in [2,3,4,5]:
        R=I.generate_richardson_integrator(base,k)
        errs=[]
        for h in [LD(0.4),LD(0.2),LD(0.1)]:
            m=R((2,),dtype=np.dtype(LD),rtol=LD(1e-15),atol=LD(1e-15))
            try:
                ts,(dt_,dy),diff=m.adaptive_richardson(de.DiffRHS(rhs),LD(0),y0,{},h)
                errs.append(float(np.abs(y0+dy-ref(y0,dt_)).max()))
            except Exception as e: errs.append(np.nan); print(repr(e)[:100])
        errs=np.array(errs); print(base.__name__,k,'obs order',np.round(np.log2(errs[:-1]/errs[1:])-1,2),errs)
