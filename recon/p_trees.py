import warnings, sys, time
import numpy as np
warnings.simplefilter('ignore')
from desolver import integrators as I
from trees import gen, weights
MAXN=int(sys.argv[1]) if len(sys.argv)>1 else 14
size,U,V,gam,off=gen(MAXN)
for M in I.explicit_methods()+I.implicit_methods():
    if not hasattr(M,'tableau_final'): continue
    T=np.asarray(M.tableau_intermediate,dtype=np.longdouble); B=np.asarray(M.tableau_final,dtype=np.longdouble)
    c=T[:,0]; A=T[:,1:]
    p=int(M.__order__); pm=min(p+2,MAXN)
    res=[]
    for row in range(B.shape[0]):
        b=B[row,1:]
        for cc,label in ((None,'A1'),(c,'c')):
            w=weights(A,b,size,U,V,off,pm,c=cc)
            N=off[pm][1]
            err=np.abs(w*gam[:N]-1)  # relative residual gamma*Phi-1
            # attained order: largest q such that all trees size<=q have err<tol
            tol=1e-11
            q=0
            for n in range(1,pm+1):
                lo,hi=off[n]
                if err[lo:hi].max()<tol: q=n
                else: break
            worst=err[:off[min(p,pm)][1]].max()
            res.append((row,label,q,float(worst)))
    print(f"{M.__name__:22s} decl {p:2d} checked<= {pm:2d} rowsum-c={float(np.abs(A.sum(1)-c).max()):.1e} "+" ".join(f"[b{r}/{l}: ord{'>=' if q==pm else '='}{q} worst@decl={w:.1e}]" for r,l,q,w in res))
