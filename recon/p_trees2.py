import warnings, sys, time
import numpy as np
warnings.simplefilter('ignore')
from desolver import integrators as I
from trees import gen, weights
size,U,V,gam,off=gen(14)
LD=np.longdouble
for M in [I.RK1412Solver,I.RK108Solver,I.RK8713MSolver,I.RadauIIA19,I.DOPRI45]:
    T=np.asarray(M.tableau_intermediate,dtype=LD); B=np.asarray(M.tableau_final,dtype=LD)
    c=T[:,0]; A=T[:,1:]
    for row in range(B.shape[0]):
        b=B[row,1:]
        w=weights(A,b,size,U,V,off,14).astype(LD)
        wabs=weights(np.abs(A),np.abs(b),size,U,V,off,14)
        u=2.0**-53
        ratio=np.abs(w-1/gam)/(u*size*wabs)
        print(M.__name__,'row',row,'sum b',float(b.sum()),'per-order max ratio:',[f"{ratio[off[n][0]:off[n][1]].max():.2g}" for n in range(1,15)])
