import warnings, sys, time, numpy as np
warnings.simplefilter('ignore')
import desolver as de
from desolver import integrators as I
from trees import gen, weights
LD=np.longdouble
def universal(maxn):
    size,U,V,gam,off=gen(maxn)
    N=off[maxn][1]
    def rhs(t,y,**kw):
        F=np.ones(N,dtype=y.dtype)
        for n in range(2,maxn+1):
            lo,hi=off[n]
            F[lo:hi]=F[U[lo:hi]]*y[V[lo:hi]]
        return F
    return rhs,size,U,V,gam,off,N
for M in [I.RK4Solver,I.DOPRI45,I.RK8713MSolver,I.RK108Solver,I.RK1412Solver]:
    p=int(M.__order__); rhs,size,U,V,gam,off,N=universal(p)
    m=M((N,),dtype=np.dtype(LD))
    t0=time.time()
    for h in [LD(1),LD(-1)]:
        _,(dT,dY)=m.step(de.DiffRHS(rhs),LD(0),np.zeros(N,dtype=LD),{},h)
        T=np.asarray(M.tableau_intermediate,dtype=LD); B=np.asarray(M.tableau_final,dtype=LD)
        wabs=weights(np.abs(T[:,1:]),np.abs(B[0,1:]),size,U,V,off,p)
        w=weights(T[:,1:],B[0,1:],size,U,V,off,p)
        exact=(h**size)/gam
        ratio=np.abs(dY-exact)/(2.0**-53*size*wabs)
        agree=np.abs(dY-w*h**size)/(np.finfo(LD).eps*size*wabs*8)
        print(M.__name__,'h',float(h),'N',N,'per-order max ratio',[f"{ratio[off[n][0]:off[n][1]].max():.2g}" for n in range(1,p+1)],'code-vs-table',f"{agree.max():.2g}",f'{time.time()-t0:.1f}s')
# splitting: bicoloured
def universal_bi(maxn):
    size,U,V,gam,off=gen(maxn); N=off[maxn][1]
    # state: [q-rooted trees (N), p-rooted trees (N)]; children of q-rooted are p-rooted
    def rhs(t,y,**kw):
        yq,yp=y[:N],y[N:]
        Fq=np.ones(N,dtype=y.dtype); Fp=np.ones(N,dtype=y.dtype)
        for n in range(2,maxn+1):
            lo,hi=off[n]
            Fq[lo:hi]=Fq[U[lo:hi]]*yp[V[lo:hi]]
            Fp[lo:hi]=Fp[U[lo:hi]]*yq[V[lo:hi]]
        return np.concatenate([Fq,Fp])
    return rhs,size,gam,off,N
for M in [I.SymplecticEulerSolver,I.ABAs5o6HSolver,I.BABs9o7HSolver]:
    p=int(M.__order__)+1; rhs,size,gam,off,N=universal_bi(p)
    m=M((2*N,),dtype=np.dtype(LD))
    _,(dT,dY)=m.step(de.DiffRHS(rhs),LD(0),np.zeros(2*N,dtype=LD),{},LD(1))
    exact=np.concatenate([1/gam,1/gam]); sz=np.concatenate([size,size])
    err=np.abs(dY-exact)
    print(M.__name__,'declared',M.__order__,'per-order max abs err',[f"{err[sz==n].max():.1e}" for n in range(1,p+1)])
