import warnings, sys, time, numpy as np
warnings.simplefilter('ignore')
import desolver as de
from desolver import integrators as I
from trees import gen, weights
def universal(maxn, dtype):
    size,U,V,gam,off=gen(maxn); N=off[maxn][1]
    def rhs(t,y,**kw):
        F=np.ones(N,dtype=y.dtype)
        for n in range(2,maxn+1):
            lo,hi=off[n]; F[lo:hi]=F[U[lo:hi]]*y[V[lo:hi]]
        return F
    def jac(t,y,**kw):
        J=np.zeros((N,N),dtype=y.dtype)
        # dF_tau/dy_c = prod of other children: compute numerically via children lists
        F=rhs(t,y)
        # build children lists
        for tau in range(1,N):
            ch=[]; x=tau
            while x!=0: ch.append(V[x]); x=U[x]
            for i,c in enumerate(ch):
                prod=1.0
                for j,c2 in enumerate(ch):
                    if j!=i: prod*=y[c2]
                J[tau,c]+=prod
        return J
    return rhs,jac,size,gam,off,N
for M,q in [(I.BackwardEuler,3),(I.GaussLegendre4,5),(I.RadauIIA5,6),(I.LobattoIIIC4,5),(I.GaussLegendre6,7),(I.RadauIIA3,4),(I.RadauIIA19,6)]:
    rhs,jac,size,gam,off,N=universal(q,np.float64)
    for usejac in [True,False]:
        r=de.DiffRHS(rhs)
        if usejac: r.hook_jacobian_call(jac)
        m=M((N,),dtype=np.dtype(np.float64),rtol=1e-14,atol=1e-14)
        t0=time.time()
        h=0.5
        try:
            dtn,(dT,dY)=m(r,np.float64(0),np.zeros(N),{},np.float64(h))
            exact=(dT**size)/gam
            err=np.abs(dY-exact)/np.abs(exact)
            print(M.__name__,'N',N,'jac' if usejac else 'fd','dT',float(dT),'succ',m.solver_dict.get('newton_iteration_success'),'per-order rel err',[f"{err[off[n][0]:off[n][1]].max():.1e}" for n in range(1,q+1)],f'{time.time()-t0:.2f}s nfev {r.nfev}')
        except Exception as e: print(M.__name__,'EXC',repr(e)[:100],f'{time.time()-t0:.2f}s')
