import warnings, sys, time, numpy as np
warnings.simplefilter('ignore')
import desolver as de
from desolver import integrators as I
from trees import gen, weights
LD=np.longdouble
def universal(maxn):
    size,U,V,gam,off=gen(maxn); N=off[maxn][1]
    def rhs(t,y,**kw):
        F=np.ones(N,dtype=y.dtype)
        for n in range(2,maxn+1):
            lo,hi=off[n]; F[lo:hi]=F[U[lo:hi]]*y[V[lo:hi]]
        return F
    return rhs,size,gam,off,N
for base in [I.EulerSolver,I.MidpointSolver,I.RK4Solver,I.DOPRI45,I.SymplecticEulerSolver]:
    for k in [2,3,4,5]:
        q=int(base.__order__)+k+1
        rhs,size,gam,off,N=universal(q)
        R=I.generate_richardson_integrator(base,k)
        m=R((N,),dtype=np.dtype(LD),rtol=LD(1e-15),atol=LD(1e-15))
        t0=time.time()
        ts,(dT,dY),diff=m.adaptive_richardson(de.DiffRHS(rhs),LD(0),np.zeros(N,dtype=LD),{},LD(1))
        err=np.abs(dY-(dT**size)/gam)*gam
        att=0
        for n in range(1,q+1):
            if err[off[n][0]:off[n][1]].max()<1e-12: att=n
            else: break
        print(base.__name__,'k',k,'N',N,'attained order',att,'(declared base',base.__order__,')',f'{time.time()-t0:.2f}s')
