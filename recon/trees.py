import numpy as np, sys, time
def gen(maxn):
    """returns arrays size,u,v,gamma(float), offsets per size. id 0 = leaf tree (single node)."""
    size=[1]; U=[-1]; V=[-1]; gam=[1.0]
    off={1:(0,1)}
    vmax_by_size={1:np.array([-1])}
    for n in range(2,maxn+1):
        start=len(size)
        us=[];vs=[]
        for s in range(1,n):
            m=n-s
            lo_v,hi_v=off[s]; lo_u,hi_u=off[m]
            vm=vmax_by_size[m]
            for v in range(lo_v,hi_v):
                cnt=np.searchsorted(vm,v,side='right')
                if cnt:
                    us.append(np.arange(lo_u,lo_u+cnt)); vs.append(np.full(cnt,v))
        us=np.concatenate(us); vs=np.concatenate(vs)
        # order by (v,u): already v ascending, u ascending
        U.extend(us.tolist()); V.extend(vs.tolist()); size.extend([n]*len(us))
        off[n]=(start,start+len(us))
        vmax_by_size[n]=vs.copy()
    size=np.array(size);U=np.array(U);V=np.array(V)
    gam=np.ones(len(size))
    for n in range(2,maxn+1):
        lo,hi=off[n]
        gam[lo:hi]=gam[U[lo:hi]]*gam[V[lo:hi]]*n/size[U[lo:hi]]
    return size,U,V,gam,off
def weights(A,b,size,U,V,off,maxn,c=None):
    s=A.shape[0]
    N=off[maxn][1]
    Phi=np.ones((N,s))
    APhi=np.empty((N,s))
    APhi[0]=A.sum(1) if c is None else c
    for n in range(2,maxn+1):
        lo,hi=off[n]
        Phi[lo:hi]=Phi[U[lo:hi]]*APhi[V[lo:hi]]
        APhi[lo:hi]=Phi[lo:hi]@A.T
    return Phi@b
if __name__=='__main__':
    t=time.time(); size,U,V,gam,off=gen(int(sys.argv[1])); print([off[n][1]-off[n][0] for n in sorted(off)], time.time()-t)
