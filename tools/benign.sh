#!/bin/sh
# tools/benign.sh <patch> [tier]  -- all checks against a scratch copy with a property-PRESERVING change: every check must stay silent
PATCH=$(realpath "$1"); TIER=${2:-quick}
S=$(mktemp -d /tmp/desolver-verif-benign-XXXXXX)
trap 'rm -rf "$S"' EXIT INT TERM
rsync -a --exclude .git --exclude __pycache__ /repo/ "$S/" || exit 2
( cd "$S" && patch -p1 -s < "$PATCH" ) || { echo "patch failed"; exit 2; }
echo "== $(basename $PATCH)"
for id in C01 C02 C03 C04 C05 C06 C07 C08 C09 C10 C11 C12 C13 C14 C15 C16 C17 C18 C19 C20; do
  out=$(VERIF_REPO="$S" /verif/check $id --tier $TIER 2>&1); rc=$?
  echo "$id rc=$rc violations=$(echo "$out" | grep -c '^VIOLATION') $(echo "$out" | grep '^VIOLATION' | head -2 | cut -c1-160)"
done
