#!/bin/sh
# tools/coverage.sh [tier] [IDs...] -- which lines / branches of /repo/desolver do the checks execute?
# Runs every check under coverage.py (forked pool workers included), combines, and writes
# tools/coverage_report.txt (missing lines and partial branches per file).  A diagnostic for the
# alphabets, not a check: unexecuted code is code in which no change can be noticed.
TIER=${1:-quick}; shift
IDS=${*:-C01 C02 C03 C04 C05 C06 C07 C08 C09 C10 C11 C12 C13 C14 C15 C16 C17 C18 C19 C20}
cd "$(dirname "$0")/.." || exit 2
D=$(mktemp -d /tmp/desolver-verif-cov-XXXXXX)
cat > $D/rc <<EOR
[run]
branch = True
parallel = True
concurrency = multiprocessing
data_file = $D/data
source = /repo/desolver
omit = */tests/*
[report]
show_missing = True
EOR
export PYTHONDONTWRITEBYTECODE=1 OMP_NUM_THREADS=1 OPENBLAS_NUM_THREADS=1 MKL_NUM_THREADS=1 PYTHONHASHSEED=0 VERIF_EVIDENCE_DIR=$D/evidence
mkdir -p $D/evidence
for id in $IDS; do
  /venv/bin/python -W ignore -m coverage run --rcfile=$D/rc -m mc.runner $id --tier $TIER 2>&1 | tail -1 | cut -c1-150
done
/venv/bin/python -m coverage combine --rcfile=$D/rc -q
/venv/bin/python -m coverage report --rcfile=$D/rc > tools/coverage_report.txt 2>&1
tail -25 tools/coverage_report.txt
rm -rf $D
