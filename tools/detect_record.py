#!/usr/bin/env python3
"""Re-creates each repaired defect (git revert of one fix commit in a scratch copy) and records which checks fire.
usage: tools/detect_record.py > seeded/UNFIX_RESULTS.md"""
import subprocess, sys, re
MAP = [("F1", "34fe534", ["C01"]), ("F2", "4c8138f", ["C01", "C11"]), ("F14", "e15d9c2", ["C01"]), ("F20", "3102b33", ["C10", "C01"]), ("F21", "2a2b0d8", ["C10"]),
       ("F4", "f741ce3", ["C02", "C05"]), ("F18", "3d93230", ["C03"]), ("F5", "779c73f", ["C03", "C04", "C18"]), ("F7", "5a2223d", ["C06", "C07"]),
       ("F7b", "4de3125", ["C08", "C07"]), ("F9", "fdf5939", ["C06", "C09"]), ("F9b", "65945c8", ["C06", "C09"]), ("F13", "84ce3b5", ["C06"]),
       ("F15", "5080bfb", ["C07", "C08"]), ("F23", "b6c5bb9", ["C09"]), ("F16", "0791383", ["C12"]), ("F17", "22066cd", ["C12"]), ("F24", "76e7a8f", ["C13"]),
       ("F10", "0eb3540", ["C19"]), ("F10b", "df0e7a9", ["C19"]), ("F19", "6898292", ["C15"]), ("F26", "bab661b", ["C18"]), ("F11", "6d4509d", ["C16"]), ("F27", "bc6cb9a", ["C05"]),
       ("F25", "178b0dc", ["C14"])]
print("| defect | reverted commit | check | result |\n|---|---|---|---|")
for fid, c, checks in MAP:
    for chk in checks:
        p = subprocess.run(["/verif/tools/unfix.sh", c, chk], capture_output=True, text=True, env=dict(__import__("os").environ, LINES_MAX="400"))
        out = p.stdout + p.stderr
        if "patch failed" in out:
            res = "revert does not apply cleanly (later fix touches the same lines)"
        else:
            n = len(re.findall(r"^VIOLATION", out, re.M))
            keys = sorted(set(re.findall(r"key=(C\d+/[^/ ]+)", out)))
            res = ("FIRES: %d violation keys, e.g. %s" % (n, ", ".join(keys[:3]))) if n else "silent"
        print("| %s | %s | %s | %s |" % (fid, c, chk, res), flush=True)
