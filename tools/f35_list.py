#!/usr/bin/env python3
"""Lists the inputs of C08's gap cells that fail on the current /repo tree (candidates for the open finding F35) and classifies each: 'in-jump' if the event
level lies between the committed state and the end state of a dense piece at one end of the missed step (the F35 mechanism), 'other' if not.
usage: /venv/bin/python tools/f35_list.py [--write]   (--write replaces where.gapkey of F35 in known_findings.json, only if every failing input is 'in-jump')"""
import json, os, sys
sys.path.insert(0, "/verif")
os.environ.setdefault("VERIF_REPO", "/repo")
sys.path.insert(0, os.environ["VERIF_REPO"])
import numpy as np
from mc.props import c08, loopcommon as lc
import desolver as de

gaps = [dict(gap=True, method=m, span=list(sp), dense=dn, tol=1e-6, scales=[1.0, -1e3])
        for m in ("RICH:RK45CKSolver:2", "RICH:ABAs5o6HSolver:2", "RICH:RK4Solver:3")
        for sp in ((0.0, 6.0), (0.0, -6.0), (2.0, -3.0)) for dn in (True, False)]
keys, other = [], []
for case in gaps:
    r = c08.gap_case(case)
    for v in r.viol:
        cs = v["case"]
        c, sc, k = cs["level"], cs["scale"], cs["step"]
        # re-run this one input with dense output on to look at the pieces around the missed step
        t0, tf = case["span"]
        def f(t, y, **kw):
            return np.array([y[1], -y[0]], dtype=y.dtype)
        def g(t, y, **kw):
            return np.asarray(sc * (y[0] - c))
        a = de.OdeSystem(f, y0=np.array([np.sin(t0), np.cos(t0)]), t=(t0, tf), dt=0.125, rtol=case["tol"], atol=case["tol"], dense_output=True)
        a.method = lc.by_name(case["method"])
        a.integrate(events=[g])
        T = np.asarray(a.t); Y = np.asarray(a.y)
        injump = False
        if case["dense"] and k + 1 < len(T):
            for n in (k, k + 1):
                for p in a.sol.y_interpolants:
                    for (tt, val) in ((p.t1, p.p1), (p.t0, p.p0)):
                        if float(tt) == float(T[n]):
                            v_ = float(np.asarray(val)[0]); yn = float(Y[n][0])
                            if min(v_, yn) <= c <= max(v_, yn) and v_ != yn:
                                injump = True
        else:
            injump = None      # (without dense output the pieces are not kept: classified by its dense twin, same level and step)
        keys.append((cs["gapkey"], injump))
twins = {}
for gk, ij in keys:
    parts = gk.split("|"); tw = "|".join(parts[:3] + ["1"] + parts[4:])
    if ij is not None:
        twins[gk] = ij
res = []
for gk, ij in keys:
    parts = gk.split("|"); tw = "|".join(parts[:3] + ["1"] + parts[4:])
    res.append((gk, ij if ij is not None else twins.get(tw)))
bad = [gk for gk, ij in res if ij is not True]
print(len(res), "failing inputs;", len(bad), "not classified as in-jump")
for gk in bad:
    print("  NOT in-jump:", gk)
if "--write" in sys.argv and not bad:
    d = json.load(open("/verif/known_findings.json"))
    for f_ in d["findings"]:
        if f_["id"] == "F35":
            f_["where"]["gapkey"] = sorted(gk for gk, _ in res)
    json.dump(d, open("/verif/known_findings.json", "w"), indent=1)
    print("written")
