#!/usr/bin/env python3
"""Rewrites the table of seeded changes in DESIGN.md (between the markers) from seeded/*/meta.json."""
import glob, json, re
rows = []
for p in sorted(glob.glob('/verif/seeded/*/meta.json')):
    m = json.load(open(p))
    first = m.get('first_evaluation', '')
    rows.append((m['seed'], m['property'], m.get('needs_to_manifest', '')[:170], ', '.join(m.get('caught_by', [])) or 'none',
                 'NOT DETECTED (see meta.json)' if m.get('not_detected') else 'no alarm expected: does not break the property as stated (see meta.json)' if m.get('not_property_breaking') else ('missed; later made harmless by a fix in /repo (see meta.json)' if ('missed' in first.lower() or 'would have' in first) else 'caught; later made harmless by a fix in /repo (see meta.json)') if m.get('neutralised_by') else ('missed, then strengthened' if ('missed' in first.lower() or 'would have' in first) else 'caught')))
tab = "| seeded change | property | needs, to manifest | caught by | first evaluation |\n|---|---|---|---|---|\n" + "".join("| %s | %s | %s | %s | %s |\n" % r for r in rows)
n_missed = sum(1 for r in rows if not r[4].startswith('caught') and not r[4].startswith('no alarm expected'))
n_np = sum(1 for r in rows if r[4].startswith('no alarm expected'))
s = open('/verif/DESIGN.md').read()
a = s.index('| seeded change | property |')
b = s.index('\nOf the ', a)
s = s[:a] + tab + s[b:]
s = re.sub(r"Of the \d+ changes, \d+ were caught by the checks as first built; \d+ were missed", "Of the %d changes, %d were caught by the checks as first built; %d were missed" % (len(rows) - n_np, len(rows) - n_np - n_missed, n_missed), s)
open('/verif/DESIGN.md', 'w').write(s)
print(len(rows), 'seeded changes;', n_missed, 'missed at first')
