#!/usr/bin/env python3
"""Regenerates /verif/MANIFEST.json from the table below (and validates it when jsonschema is importable)."""
import json
import os

ROOT = os.path.dirname(os.path.dirname(os.path.abspath(__file__)))

# id -> (category, technique, text, note, design_ref)
CHECKS = {
    "C01": ("exploration",
            "exhaustive enumeration of all rooted-tree (and bicoloured-tree) order conditions up to the declared order, on the tables and through the real step code via a universal tree ODE",
            "Complete enumeration of the finite set of order conditions that, by Butcher's theorem, is equivalent to 'order p for every smooth right-hand side, state and small step of either sign': every tree up to the declared order for all 29 Runge-Kutta tables (53 272 conditions for RK1412), bicoloured trees for the 3 splitting schemes, the same conditions evaluated through the real step code in longdouble with h = +-1 and the small dyadic steps +-2^-7 (thorough: +-2^-12), implicit methods through the real Newton path, and the real Richardson wrappers for 2..5 levels. exhaustive=true: the explored space is the whole space.",
            "Trusts Butcher's order theorem and a first-order rounding bound (64*2^-53*|tau|*Phi_abs) for float64-stored coefficients; RadauIIA19's order 19 is certified by the simplifying assumptions B(19), C(10), D(9) with trees enumerated to order 14 (quick) / 17 (thorough).",
            "DESIGN.md 4/C01"),
    "C02": ("exploration",
            "exhaustive product enumeration (method x dtype x rhs program x shape x t x signed h) with a stage-residual oracle, plus exhaustive enumeration of scripted nonlinear-solver answer strings (environment answers) up to a length bound",
            "Every cell of the declared product is executed on the real integrator (four calls on one integrator object each: a step, its continuation, -h directly after +h, and a step from an unrelated point) and the property's own formula is re-evaluated in longdouble from the library's stage slopes: explicit residuals to a derived rounding bound, implicit residuals to the documented Newton tolerance, the increment against h*sum(b_i k_i), splitting steps against the drift/kick composition read from the coefficient list and mask. The solver's answers are scripted exhaustively (truthful / forced failure / lying success) to show an unsolved stage system is never accepted.",
            "Finite alphabets (6 rhs programs with known Lipschitz bounds, 3 times, 6 signed steps, 3 dtypes); rounding bound 64*eps*((1+L)*scale+|f|); MINPACK/LAPACK trusted.",
            "DESIGN.md 4/C02"),
    "C03": ("model_checking",
            "explicit-state breadth-first search over operation histories (integrate(), integrate(T), dt=) on the real OdeSystem with canonical state hashing, reference direction/target model and per-call invariants in every state; plus buffer-growth cells",
            "Every history up to the depth bound from every configuration (7 methods x 42 signed spans x 5 initial dt incl. oversized/negative x dtypes x 2 problems) is executed on the real object, rebuilt by replay; after every integrate the call's segment must start where the previous ended, move strictly monotonically to its target, not overshoot, end within 64 eps, stay paired/finite/of the initial dtype. States are deduplicated by a hash over all carried state (buffers, dt, status, integrator caches). Run-away loops are caught by a step budget. Beside the exact lattice: fixed histories with steps 0.1/0.3, spans at |t| = 1e3 and 1e6, targets a few units in the last place away, and states of rank 0..3 (y' = C integrated exactly).",
            "Depth 2 (quick) / 3 (thorough); lattice times in {-2..2}; a call that raises is outside C03's premise and only counted.",
            "DESIGN.md 4/C03"),
    "C04": ("exploration",
            "exhaustive product enumeration (fixed-step method x signed span x dt x dtype) with exact comparison against a reference time grid on a dyadic lattice; differential oracle between shifted / reflected runs",
            "On the lattice every sum the loop forms is exact, so the recorded grid of each of the 23 fixed-step methods is compared bit-for-bit with the spec grid for all 42 spans and 3 step sizes; shift and reflection of an autonomous problem are compared between two real runs (rounding level for explicit/splitting, tolerance level otherwise) for all 32 methods and for Richardson wrappers over explicit, splitting and implicit bases.",
            "Known finding F8 (implicit fixed-step methods grow the step) is pinned by a narrow signature; see known_findings.json.",
            "DESIGN.md 4/C04"),
    "C05": ("exploration",
            "exhaustive product enumeration (adaptive method x closed-form problem x direction x tolerance ladder x initial dt) with every attempt of every integrator call logged through the real step (retry protocol checked exactly) and a blow-up problem for the give-up clause",
            "All 9 embedded pairs and 4 Richardson wrappers are run on 5 problems with closed forms in both directions of time along a tolerance ladder and from initial steps between 1e-2 (thorough 1e-4) and larger than the span. Accuracy is compared with C_m*tol*kappa (kappa from the variational equation, C_m a frozen table); the retry protocol (a retry after a controller rejection is strictly smaller, same sign, accepted step not longer than the request) is exact; a finite-time blow-up must end in FailedToMeetTolerances with a finite, monotone, accurate prefix. Plus a decoupled system whose components span twelve orders of magnitude, judged per component (explicit pairs).",
            "Accuracy clause is quantitative (catches gross failures); cells predicted to need > 2e4 steps are declared out of bound and counted.",
            "DESIGN.md 4/C05"),
    "C06": ("model_checking",
            "explicit-state breadth-first search over histories (integrate, integrate(mid), terminal-event stop, faulting integrate) with dense output on; all dense-output invariants evaluated on the real object in every reached state",
            "From 10 methods (incl. two Richardson wrappers) x 5 signed spans every history to depth 3 is replayed on the real OdeSystem; in every state: exactly one anchored piece per recorded step with end values = rows and end slopes = f(rows), pieces ordered, every interior query (3 per step, scalar, array, grad, system[t]) answered by the containing piece, accuracy against the closed form within the Hermite remainder plus the observed grid error. Operations include a fault raised by an event function (before the step is committed); separate cells check states of rank 0..3 with an exact oracle (y' = C) for scalar and array queries.",
            "Direction reversal excluded; rounding-level thresholds 16 eps; finding F22 (Richardson wrapper of a low-order base) pinned narrowly.",
            "DESIGN.md 4/C06"),
    "C07": ("exploration",
            "exhaustive product enumeration of event cells (problem x signed span x event set x scale x direction flag x method x dense) with closed-form roots as oracle for every reported tuple",
            "Every reported (t_e, y_e, g) of every cell is checked: y_e equals the dense solution (or the Hermite piece rebuilt from the bracketing rows), |g| ~ 0 relative to the scale of g, t_e inside a recorded step, within a derived bound of an exact root, crossing direction compatible (computed and exact trajectory), list ordered along the direction of travel, no crossing reported twice. Roots are placed in step interiors and exactly on step boundaries of a dyadic lattice.",
            "Direction is judged along the direction of integration; location bound 8*(E_interp+E_grid)/|gdot|.",
            "DESIGN.md 4/C07"),
    "C08": ("exploration",
            "exhaustive product enumeration of the same event cells with an oracle evaluated only on recorded rows (strict sign change of g between the two ends of an accepted step => an event of that function inside the step)",
            "For each of the cells (scales over 12 orders of magnitude, 1..3 (quick) / 1..6 (thorough) simultaneous events, both directions, dense on/off, 5 methods, spans near the origin of the time axis and at |t| ~ 32) every recorded step and every event function is examined; the number of demanded sign changes is reported so vacuity is visible.",
            "Sound by construction: demands nothing the statement does not (strict inequality on recorded data).",
            "DESIGN.md 4/C08"),
    "C09": ("model_checking",
            "explicit-state breadth-first search over event menus x {integrate(events), integrate(+-inf, events), partial integrate} x continuations {integrate(), other terminal event, reset}; invariants against closed-form roots in every state",
            "17 menus of terminal / non-terminal events (every order of their roots, two terminals, shared roots, roots on step boundaries) x 7 signed spans x 5 methods x dense on/off: after a stop the status, last time = event time, last state on the surface, nothing beyond, only the earliest terminal plus earlier non-terminal events reported, dense output valid; continuations end at the target with C03/C06 invariants.",
            "Re-arming the same terminal event at its own root is outside the statement; 'earliest' judged on exact roots for the lattice problem and accurate methods.",
            "DESIGN.md 4/C09"),
    "C10": ("exploration",
            "exhaustive product enumeration (method x Hamiltonian x state lattice x signed h x state layout / kick mask x entry point) with the Jacobian of the real one-step map as oracle",
            "For every cell the Jacobian M of the real one-step map is formed (exact columns for quadratic Hamiltonians, central differences otherwise) and M^T J M = J is checked; symmetric schemes are stepped h then -h; 4096-step energy runs compare the two halves; table identities (b_i a_ij + b_j a_ji = b_i b_j, palindromic splitting lists) are checked exactly. Masks are passed by the constructor and through OdeSystem.set_kick_vars.",
            "Finite families (5 separable Hamiltonians, 3-point state lattice, 6 signed steps); finite-difference tolerances 1e-10 (longdouble, explicit) / 1e-7 (float64, implicit) with negative controls at 1e-5..6e-4.",
            "DESIGN.md 4/C10"),
    "C11": ("exploration",
            "exhaustive enumeration of a polar grid of the closed left half-plane for the stability function of every implicit tableau, eigenvalues of A, and real implicit steps on y'=lambda*y over (radius, angle, sign convention, Jacobian source)",
            "|R(z)| <= 1 is evaluated on 45 radii (1e-3..1e8) x 65 angles for all 16 implicit tableaux with a conditioned rounding bound, poles are excluded via the eigenvalues of A, and the real step on scalar and 2x2 damped-rotation blocks is compared with R(dT*lambda) and required not to increase |y|.",
            "Grid result is extended to the half-plane by the maximum principle (no poles + bound on the boundary); steps that raise FailedToMeetTolerances are not accepted steps (counts reported).",
            "DESIGN.md 4/C11"),
    "C12": ("fault_enumeration",
            "exhaustive crash-point enumeration: every call of the user's rhs / Jacobian / event functions / callbacks of a short run is numbered and one execution per call position and exception kind is run with exactly that call raising; then resume and reset",
            "For 8 method set-ups x 2 directions x dense on/off x with/without events+callbacks the fault-free run numbers all user-function calls (about 4 000 sites in quick); each site is failed once with an Exception subclass and once with KeyboardInterrupt. After the fault: exception type and cause, failure status, bit-exact prefix of the fault-free rows, events a prefix, dense output covering exactly the accepted steps; after resume: ends at the target, monotone, dense invariants on the whole trajectory (exposes stale cached slopes), accuracy as good as the fault-free run, fixed-step methods bit-identical to a fresh system started at the prefix end; reset pristine. Thorough adds pairs of faults.",
            "Runs of 3-5 steps (the statement's 'enumerated exhaustively for short runs'); sites are call positions since construction, determinism verified per site.",
            "DESIGN.md 4/C12"),
    "C13": ("model_checking",
            "explicit-state breadth-first search over the full operation alphabet (integrate, integrate(t), dt/rtol/atol/method/tf setters, set_kick_vars, terminal-event run, faulting run, reset) with a differential oracle in every reached state",
            "In every state reached by a history up to the depth bound: the history is rebuilt twice and must hash bit-identically; the caller's y0 / constants and the class-level coefficient tables are unchanged; a call at the current time changes nothing (and, in separate cells with non-dyadic steps, redundant calls at the REQUESTED target change nothing and the continuation equals a twin's bit for bit); reset() gives a pristine system and a subsequent integrate is bit-identical (rows and dense slopes) to a freshly constructed system with the state's current settings. Split-invariance cells compare one-call and several-call runs for 18+ methods.",
            "Depth 3 (quick) / 4 (thorough), each setter at most once per history; 'same settings' = method, rtol, atol, tf, mask, constructor dt and dense flag.",
            "DESIGN.md 4/C13"),
    "C14": ("exploration",
            "exhaustive product enumeration (function x bracket x scale x tolerance x dtype) for the scalar Brent solver and every window of length 1..16 over the same enumeration for the vectorised solver, each answer certified against the function itself",
            "7 functions (linear, flat cubic root, quadratic, exp, steep tanh, jump, multi-root sine) x 10 brackets (both orders, root interior / exactly at an end / absent, |x| > 4, narrow) x scales 1e-6..1e9 x 3 tolerances x 3 dtypes: point inside the bracket; sign change => success and a sign change within tolerance of the point; success => |f| <= tol or sign change nearby; no sign change and no root at an end point => no success; vector flags and points agree with the scalar solver on sign-change brackets.",
            "'within tolerance' = max(tol, 4 ulp) relative to max(1,|x|); on brackets without a sign change the scalar solver's documented (inf, False) sentinel is accepted.",
            "DESIGN.md 4/C14"),
    "C15": ("exploration",
            "exhaustive product enumeration (system x shape x solver / dispatch path x Jacobian source x initial guess x tolerance) with the residual re-evaluated in longdouble at every point reported as a success",
            "7 systems (incl. singular Jacobian at the root, remote root, two rootless) x shapes (), (n,) for n in {1,2,3,6,12}, (2,3) x {nonlinear_roots via MINPACK, nonlinear_roots via the built-in dogleg/Newton path (longdouble), newtontrustregion, hybrj} x analytic / finite-difference Jacobian x near / far / singular guesses x 3 tolerances: success => ||F(x)|| <= 100 tol (n + ||x||) and the shape of the guess; an exception counts as a reported failure. Plus a family of well-conditioned, stiffly scaled systems (S up to 1e7, n up to 12) where a converged step is not a small residual; the modest multiple is 30, linear in n.",
            "O(1)-scaled systems; MINPACK / LAPACK trusted.",
            "DESIGN.md 4/C15"),
    "C16": ("model_checking",
            "explicit-state breadth-first search over jac / hook / unhook / assignment / call histories on DiffRHS against a one-variable reference model, plus an exhaustive product for the finite-difference JacobianWrapper",
            "(b) every history to depth 4 (quick) / 5 (thorough) over 9 operations, with and without a jac attribute on the user's function: the answer must be exactly the attached function's value, else the analytic Jacobian at the requested (t, y) (a time-dependent, non-symmetric right-hand side exposes stale time/state and transposition), njev/nfev exact. (a) 5 functions incl. non-square and matrix-shaped maps x evaluation points with components in {1e-8, 0.3, 5, 1e4} x base orders {2,3,5,7} x flat on/off: layout and values.",
            "Finite-difference tolerance 100*(rtol|J|+atol) plus a round-off floor; linear maps 1e5*eps*|A||x|.",
            "DESIGN.md 4/C16"),
    "C17": ("exploration",
            "exhaustive enumeration of all strictly increasing arrays of length 1..7 over a 9-point grid x 21 queries (scalar and vector search, 4 container types) and of cubic/interval/evaluation-point lattices for the Hermite piece",
            "The statement's own finite quantifier is enumerated completely: 501 arrays x 21 queries x {float32, float64, longdouble, list} against min(searchsorted_left, n-1); Hermite pieces for 7 cubics x 20 ordered intervals x 37 points x scalar/array data x 3 dtypes against the cubic itself with a derived rounding bound. exhaustive=true. Plus six narrow non-dyadic intervals far from the origin (|t0|/|h| up to 4e5).",
            "Hermite tolerance 64*eps*sum|basis||data| (absolute-coefficient bound); numpy.searchsorted trusted as the specification of 'first element not smaller'.",
            "DESIGN.md 4/C17"),
    "C18": ("exploration",
            "exhaustive sub-products over the facade's arguments (every registered method name, all 31 subsets of a t_eval lattice plus unsorted/repeated variants, state shapes, args tuples, max_step, tolerances, spans of every sign/direction) with differential oracles (closed form, underlying system, object API driven by hand, scipy)",
            "Shapes and pairing of (t, y); first column = initial condition; t_eval honoured; args bound in order (distinguishable parameters, closed form); no recorded step longer than max_step on the underlying grid (also backward); sol / counters / status are the underlying system's; results equal the object API driven by hand at rounding level and scipy's solve_ivp within tolerance.",
            "t_eval on backward spans is rejected by the facade by design; 'exactly those times' = one column per requested time at that time to 64 eps (C03's end-point rule).",
            "DESIGN.md 4/C18"),
    "C19": ("exploration",
            "exhaustive enumeration of recorded grids x all integer indices in [-len-2, len+2] x a lattice of query times (recorded times and their floating-point neighbours, exact midpoints and +-2^j ulp, outside both ends) x whole-run slices, against python-list semantics",
            "The real OdeSystem is compared with a boring reference (a python list of rows, IndexError outside, linear nearest-sample search with exact tie handling) for uniform/adaptive grids, forward/backward/through-zero/negative times, one call / continued / partial / never run, dense on/off. Interior time slices are checked under a weak reading (contiguous stretch between the bounds, at most one sample beyond each).",
            "Ties accept either neighbour; whole-run slices written in run order; only python ints are integer indices; dense lookups before the first step carry no claim.",
            "DESIGN.md 4/C19"),
    "C20": ("model_checking",
            "explicit-state breadth-first search over histories (integrate, events, terminal event, rhs fault at its k-th call, reset, dt-assigning callback) with plain integer reference counters inside the user's functions and a callback log",
            "In every reached state nfev must equal the number of completed user-rhs calls since construction / the last reset (exact integers, including calls made for finite-difference Jacobians, dense output and the constructor's probe), njev the number of Jacobian requests; callbacks are in the given order, see a strictly growing trajectory whose last row is the one just recorded, exactly once per recorded step (landing on a terminal event shares one), and an assigned dt is the next step of a fixed-step method. Configurations also run against the configured span; the step after a callback assigned dt must move toward the target of the call.",
            "njev convention after reset is left open; a Jacobian request that raised may or may not be counted.",
            "DESIGN.md 4/C20"),
}

# additions of waves 11-12 and of the coverage diagnostic, appended to the level texts above
EXTRA = {
    "C02": " The scripted answer strings also run under a caller-supplied step controller (adaptation_fn hook); a further call on the same object after its public rtol / atol attributes were tightened.",
    "C03": " Section 'answers' (E2 over environment answers): the integrator's answer 'I took less than you asked' is scripted onto every call of a run in turn and onto pairs of calls (real integrator behind a scripted wrapper, y' = const keeps every oracle exact); the same runs with the progress display switched on (eta=True).",
    "C05": " Tolerances also reach the system through its setters (before / after the method is chosen, after a loose run and a reset).",
    "C06": " For Richardson wrappers every piece's end slopes are compared with f at the piece's own end points. Operations reset() and a tolerance setter between runs; 'consts' cells (the system's constants changed between two calls, by assignment and in place).",
    "C07": " Clause (g): events_dict holds, per function, exactly that function's tuples of the events list. 'Rearmed' cells: the same event function objects served another system before, with other attributes.",
    "C08": " 'Rearmed' cells as in C07.",
    "C09": " Configurations with Richardson wrappers of adaptive pairs and an FSAL pair; for wrappers the dense solution between grid points is compared with the closed form. Histories in which an earlier call failed (exception / keyboard interrupt) before the run a terminal event stops.",
    "C10": " Cells that reuse one integrator object also give it a first call at another scale (1e8 / 1e-8 times the evaluation states); (2, 2) matrix states whose kick mask marks a column.",
    "C11": " Real steps also on 2x2 and 2x3 matrix states (an ensemble of block problems), column by column against R(z); two consecutive steps of one object in tiny time units (float32 1e-7, float64 1e-15 / 1e-9).",
    "C12": " On the set-ups with dense output every site additionally raises 14 exception classes users really raise (ValueError, LinAlgError, arithmetic errors, RuntimeError, ..., the library's own FailedToMeetTolerances); clause 'swallowed' (the call was reached, nothing propagated).",
    "C14": " Section 'options': return_interval, verbose, tol below eps (must not change the answer), one array-valued function (plain / mask-accepting with zero-filled or untouched masked entries), bounds shared by a list of functions.",
    "C15": " Cells with the unknowns confined to a box (var_bounds, three boxes) and with verbose output, on both dispatch paths and for the solvers called directly; systems posed through additional_args / additional_kwargs.",
    "C16": " Operations include set_jac_base_order; a configuration with a column-shaped (3,1) state checks the layout of every answer; finite-difference cells for two second-order systems along a 25-point lattice; 'reuse' cells in which one wrapper object answers a list of points.",
    "C18": " Cells with the progress display (show_prog_bar) with and without max_step / first_step / t_eval; output times close together (2.5e-3 apart at |t| ~ 2000, 4e-9 apart near 0.5).",
    "C19": " Every multi-call history also with lookups (scalar, array, slice, index) made between its calls; histories that monitored (terminal and non-terminal) events.",
    "C01": " The first instances of every class in a worker process are float32 / float16 ones, built and discarded before the instance under test.",
    "C13": " Ownership cells: all sequences up to length 3 (thorough 4) over {integrate, reset, del constants, assign constants, read, failing run} with the caller's dictionary compared after every operation.",
    "C17": " Far cells include intervals of extreme length (2^-43, 1e13, 1e+-110).",
    "C20": " Operation 'hopdt': a hop shorter than one step whose callbacks assign the step size; the first step of the next call must use it.",
}
for _k, _v in EXTRA.items():
    _c = CHECKS[_k]
    CHECKS[_k] = (_c[0], _c[1], _c[2] + _v, _c[3], _c[4])

NOT_YET = "check not built yet in this session (work in progress; see DESIGN.md section 4 for the planned bounded-exhaustive design)"


def main():
    props = [json.loads(l)["id"] for l in open(os.path.join(ROOT, "properties.jsonl"))]
    checks = []
    for pid in props:
        if pid not in CHECKS:
            continue
        cat, tech, text, note, ref = CHECKS[pid]
        checks.append(dict(
            property_id=pid,
            quick_cmd="./check %s --tier quick" % pid,
            thorough_cmd="./check %s --tier thorough" % pid,
            evidence_file="/verif/evidence/%s.json" % pid,
            replay_cmd_template="./check %s --replay {path}" % pid,
            engine="mc",
            level_claimed=dict(category=cat, text=text, design_ref=ref),
            level_note=note,
            technique=tech,
        ))
    man = dict(
        version=1,
        setup_cmd="true",
        hooks=dict(guard="DESOLVER_VERIF", enable="no hooks are needed: the checks drive the unmodified library from /repo's working tree (sys.path[0]=/repo, fresh interpreter, PYTHONDONTWRITEBYTECODE=1)",
                   baseline_off_cmd="cd /repo && /venv/bin/python -m pytest -ra -q -p no:cacheprovider --timeout=900 --continue-on-collection-errors",
                   source_commits=[], add_only=True),
        engines=[dict(name="mc", path="/verif/mc", serves_properties=[c["property_id"] for c in checks],
                      kind_free_text="hand-written explicit-state / bounded-exhaustive explorers in Python driving the real implementation: E1 history BFS with canonical state hashing, E2 crash-point and environment-answer enumeration, E3 exhaustive products over declared finite alphabets; reference models in mc/ref")],
        checks=checks,
        notes="Known genuine defects that were not repaired are listed in /verif/known_findings.json (status=open) and print KNOWN-FINDING lines; repaired ones are 'fix:' commits in /repo and listed there with status=fixed.",
        not_applicable=[dict(property_id=p, reason=NOT_YET) for p in props if p not in CHECKS],
    )
    path = os.path.join(ROOT, "MANIFEST.json")
    with open(path, "w") as fh:
        json.dump(man, fh, indent=1)
        fh.write("\n")
    try:
        import jsonschema
        jsonschema.Draft202012Validator(json.load(open("/root/.vp/MANIFEST.schema.json"))).validate(man)
        print("MANIFEST.json valid; %d checks, %d not_applicable" % (len(checks), len(man["not_applicable"])))
    except ImportError:
        print("MANIFEST.json written (jsonschema not importable here; run with python3-vt to validate)")


if __name__ == "__main__":
    main()
