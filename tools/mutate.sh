#!/bin/sh
# tools/mutate.sh <patch.diff> <ID> [<ID>...]   -- run checks (quick tier) against a scratch copy of /repo with the patch applied
# TIER=thorough to change tier.  The scratch copy lives under /tmp and is removed afterwards.
PATCH=$(realpath "$1"); shift
S=$(mktemp -d /tmp/desolver-verif-mut-XXXXXX)
trap 'rm -rf "$S"' EXIT INT TERM
rsync -a --exclude .git --exclude __pycache__ /repo/ "$S/" || exit 2
( cd "$S" && patch -p1 -s < "$PATCH" ) || { echo "patch failed"; exit 2; }
rc=0
for id in "$@"; do
  VERIF_REPO="$S" /verif/check "$id" --tier "${TIER:-quick}" 2>&1 | grep -v '^    \|conda' | cut -c1-400 | head -${LINES_MAX:-12}
done
