#!/bin/sh
# tools/run_all.sh [tier] [seed]  -- runs every registered check once, prints one summary line each
TIER=${1:-quick}; SEED=${2:-0}
cd "$(dirname "$0")/.." || exit 2
for id in C01 C02 C03 C04 C05 C06 C07 C08 C09 C10 C11 C12 C13 C14 C15 C16 C17 C18 C19 C20; do
  s=$(date +%s)
  out=$(VERIF_SEED=$SEED ./check $id --tier $TIER 2>&1); rc=$?
  e=$(date +%s)
  echo "$id rc=$rc $(($e-$s))s $(echo "$out" | grep -c '^VIOLATION') violations, $(echo "$out" | grep -c '^KNOWN-FINDING') known | $(echo "$out" | tail -1 | cut -c1-160)"
done
