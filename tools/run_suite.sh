#!/bin/sh
# runs the pinned suite against /repo's working tree and compares with BASELINE stable_pass
# usage: tools/run_suite.sh [outdir]   (outdir default /tmp/desolver-verif-suite)
OUT=${1:-/tmp/desolver-verif-suite}
mkdir -p "$OUT"
cd /repo && PYTHONDONTWRITEBYTECODE=1 /venv/bin/python -m pytest -ra -q -p no:cacheprovider --timeout=900 --continue-on-collection-errors --junitxml="$OUT/junit.xml" > "$OUT/log.txt" 2>&1
/venv/bin/python - "$OUT/junit.xml" <<'PY'
import sys, json, xml.etree.ElementTree as ET
base=json.load(open('/root/.vp/BASELINE.json'))
stable=set(base['stable_pass'])
passed=set(); other={}
for tc in ET.parse(sys.argv[1]).getroot().iter('testcase'):
    name=tc.get('classname')+'::'+tc.get('name')
    bad=[c.tag for c in tc if c.tag in ('failure','error','skipped')]
    if bad: other[name]=bad[0]
    else: passed.add(name)
missing=sorted(stable-passed)
print('passed',len(passed),'stable_pass',len(stable),'stable not passing',len(missing))
for m in missing[:40]: print('  NOT PASSING:',m,other.get(m,'absent'))
sys.exit(1 if missing else 0)
PY
