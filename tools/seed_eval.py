#!/usr/bin/env python3
"""Confirm a seeded (property-breaking) change and run the checks against it.

usage: tools/seed_eval.py <seed-id> <property> <patch.diff> <demo.py> [--checks C03,C04,...] [--no-suite] [--needs "..."]

Steps (all in a scratch copy of /repo under /tmp, removed afterwards):
  1. demo on the clean tree            -> must exit 0
  2. apply the patch, demo again       -> must exit non-zero
  3. pinned test suite with the patch  -> every BASELINE stable_pass test must still pass
  4. the property's check (and any others named) with VERIF_REPO pointing at the patched copy
Writes /verif/seeded/<seed-id>/{patch.diff, demo.py, meta.json}.
"""
import argparse
import json
import os
import re
import shutil
import subprocess
import sys
import tempfile
import xml.etree.ElementTree as ET


def sh(cmd, cwd=None, env=None, timeout=7200):
    p = subprocess.run(cmd, shell=True, cwd=cwd, env=env, capture_output=True, text=True, timeout=timeout)
    return p.returncode, (p.stdout + p.stderr)


def main():
    ap = argparse.ArgumentParser()
    ap.add_argument("seed"); ap.add_argument("prop"); ap.add_argument("patch"); ap.add_argument("demo")
    ap.add_argument("--checks", default=None); ap.add_argument("--no-suite", action="store_true"); ap.add_argument("--needs", default="")
    ap.add_argument("--tier", default="quick")
    a = ap.parse_args()
    S = tempfile.mkdtemp(prefix="desolver-verif-seed-")
    out = dict(seed=a.seed, property=a.prop, needs_to_manifest=a.needs, ran=[])
    try:
        sh("rsync -a --exclude .git --exclude __pycache__ /repo/ %s/" % S)
        env = dict(os.environ, PYTHONPATH=S, PYTHONDONTWRITEBYTECODE="1")
        demo = os.path.join(S, "demo_seed.py")
        shutil.copy(a.demo, demo)
        rc0, o0 = sh("/venv/bin/python -W ignore %s" % demo, cwd=S, env=env, timeout=1800)
        out["demo_clean_rc"] = rc0
        out["ran"].append("demo on clean copy of /repo HEAD: rc=%d" % rc0)
        rcp, op = sh("patch -p1 -s < %s" % os.path.abspath(a.patch), cwd=S)
        if rcp != 0:
            out["error"] = "patch does not apply: " + op[-300:]
            print(json.dumps(out, indent=1)); return 2
        rc1, o1 = sh("/venv/bin/python -W ignore %s" % demo, cwd=S, env=env, timeout=1800)
        out["demo_patched_rc"] = rc1
        out["demo_patched_tail"] = o1.strip().split("\n")[-1][:300]
        out["ran"].append("demo with the patch: rc=%d" % rc1)
        if not a.no_suite:
            junit = os.path.join(S, "junit.xml")
            rcs, os_ = sh("/venv/bin/python -m pytest -q -p no:cacheprovider --timeout=900 --continue-on-collection-errors --junitxml=%s" % junit, cwd=S, env=env, timeout=3600)
            base = json.load(open("/root/.vp/BASELINE.json"))
            stable = set(base["stable_pass"])
            passed = set()
            for tc in ET.parse(junit).getroot().iter("testcase"):
                if not [c for c in tc if c.tag in ("failure", "error", "skipped")]:
                    passed.add(tc.get("classname") + "::" + tc.get("name"))
            missing = sorted(stable - passed)
            out["suite_stable_not_passing"] = len(missing)
            out["suite_tail"] = os_.strip().split("\n")[-1][:200]
            out["ran"].append("pinned suite with the patch: %d stable_pass tests not passing (%s)" % (len(missing), out["suite_tail"]))
            if missing:
                out["suite_missing_examples"] = missing[:5]
        checks = (a.checks.split(",") if a.checks else [a.prop])
        res = {}
        for c in checks:
            envc = dict(os.environ, VERIF_REPO=S)
            rcc, oc = sh("/verif/check %s --tier %s" % (c, a.tier), cwd="/verif", env=envc, timeout=7200)
            keys = sorted(set(re.findall(r"key=(\S+)", oc)))
            nv = len(re.findall(r"^VIOLATION", oc, re.M))
            res[c] = dict(rc=rcc, violation_lines=nv, keys=keys[:8])
            out["ran"].append("./check %s --tier %s against the patched copy: rc=%d, %d VIOLATION lines" % (c, a.tier, rcc, nv))
        out["checks"] = res
        out["caught_by"] = [c for c, v in res.items() if v["violation_lines"] > 0]
        d = os.path.join("/verif/seeded", a.seed)
        os.makedirs(d, exist_ok=True)
        shutil.copy(a.patch, os.path.join(d, "patch.diff"))
        shutil.copy(a.demo, os.path.join(d, "demo.py"))
        valid = (rc0 == 0 and rc1 != 0 and (a.no_suite or out.get("suite_stable_not_passing") == 0))
        out["confirmed"] = bool(valid)
        with open(os.path.join(d, "meta.json"), "w") as fh:
            json.dump(out, fh, indent=1)
        print(json.dumps(out, indent=1))
        return 0
    finally:
        shutil.rmtree(S, ignore_errors=True)


if __name__ == "__main__":
    sys.exit(main())
