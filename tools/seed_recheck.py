#!/usr/bin/env python3
"""Re-run the check(s) of an already confirmed seeded change after a check was strengthened, and record the history in its meta.json.
usage: tools/seed_recheck.py <seed-id> --first "<what the first evaluation showed>" --strengthening "<what was added>" [--checks C02,C13] [--tier quick]"""
import argparse, json, os, re, shutil, subprocess, sys, tempfile
ap = argparse.ArgumentParser()
ap.add_argument("seed"); ap.add_argument("--first", default=None); ap.add_argument("--strengthening", default=None); ap.add_argument("--checks", default=None); ap.add_argument("--tier", default="quick")
a = ap.parse_args()
d = os.path.join("/verif/seeded", a.seed)
meta = json.load(open(os.path.join(d, "meta.json")))
S = tempfile.mkdtemp(prefix="desolver-verif-seed-")
try:
    subprocess.run("rsync -a --exclude .git --exclude __pycache__ /repo/ %s/" % S, shell=True, check=True)
    subprocess.run("patch -p1 -s < %s" % os.path.join(d, "patch.diff"), shell=True, cwd=S, check=True)
    for c in (a.checks.split(",") if a.checks else [meta["property"]]):
        p = subprocess.run("/verif/check %s --tier %s" % (c, a.tier), shell=True, cwd="/verif", env=dict(os.environ, VERIF_REPO=S), capture_output=True, text=True)
        oc = p.stdout + p.stderr
        nv = len(re.findall(r"^VIOLATION", oc, re.M))
        meta["checks"][c] = dict(rc=p.returncode, violation_lines=nv, keys=sorted(set(re.findall(r"key=(\S+)", oc)))[:8])
        meta["ran"].append("(after strengthening) ./check %s --tier %s against the patched copy: rc=%d, %d VIOLATION lines" % (c, a.tier, p.returncode, nv))
    meta["caught_by"] = [c for c, v in meta["checks"].items() if v["violation_lines"] > 0]
    if a.first: meta["first_evaluation"] = a.first
    if a.strengthening: meta["strengthening"] = a.strengthening
    json.dump(meta, open(os.path.join(d, "meta.json"), "w"), indent=1)
    print(a.seed, meta["caught_by"], {c: v["violation_lines"] for c, v in meta["checks"].items()})
finally:
    shutil.rmtree(S, ignore_errors=True)
