#!/bin/sh
# tools/seed_regress.sh [tier]  -- every seeded change must still be caught by the check of its property (writes seeded/REGRESSION.md)
TIER=${1:-quick}
OUT=/verif/seeded/REGRESSION.md
echo "| seeded change | check | VIOLATION lines | wall |" > $OUT; echo "|---|---|---|---|" >> $OUT
for d in /verif/seeded/*/; do
  id=$(basename $d); prop=$(python3 -c "import json;print(json.load(open('$d/meta.json'))['property'])")
  S=$(mktemp -d /tmp/desolver-verif-reg-XXXXXX); rsync -a --exclude .git --exclude __pycache__ /repo/ "$S/"
  ( cd "$S" && patch -p1 -s < "$d/patch.diff" ) || { echo "| $id | $prop | PATCH FAILED | |" >> $OUT; rm -rf $S; continue; }
  s=$(date +%s); n=$(VERIF_REPO="$S" /verif/check $prop --tier $TIER 2>&1 | grep -c '^VIOLATION'); e=$(date +%s)
  note=$(python3 -c "import json;m=json.load(open('$d/meta.json'));print('not detected (documented)' if m.get('not_detected') else 'does not break the property as stated (documented)' if m.get('not_property_breaking') else 'made harmless by a later fix (documented)' if m.get('neutralised_by') else '')")
  echo "| $id | $prop | $n $note | $(($e-$s))s |" >> $OUT
  rm -rf "$S"
done
echo done
