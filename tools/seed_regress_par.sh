#!/bin/bash
# tools/seed_regress_par.sh [tier] [parallel]  -- like seed_regress.sh, several seeded changes at a time (each check on VERIF_JOBS workers)
TIER=${1:-quick}; PAR=${2:-4}
OUT=/verif/seeded/REGRESSION.md
W=$(mktemp -d /tmp/desolver-verif-regp-XXXXXX)
one() {
  d=$1; id=$(basename $d); prop=$(python3 -c "import json;print(json.load(open('$d/meta.json'))['property'])")
  S=$(mktemp -d /tmp/desolver-verif-reg-XXXXXX); rsync -a --exclude .git --exclude __pycache__ /repo/ "$S/"
  if ! ( cd "$S" && patch -p1 -s < "$d/patch.diff" ) >/dev/null 2>&1; then echo "| $id | $prop | PATCH FAILED | |" > $W/$id; rm -rf $S; return; fi
  s=$(date +%s); n=$(VERIF_REPO="$S" VERIF_JOBS=$JOBS VERIF_EVIDENCE_DIR=$W/ev /verif/check $prop --tier $TIER 2>&1 | grep -c '^VIOLATION'); e=$(date +%s)
  note=$(python3 -c "import json;m=json.load(open('$d/meta.json'));print('not detected (documented)' if m.get('not_detected') else 'does not break the property as stated (documented)' if m.get('not_property_breaking') else 'made harmless by a later fix (documented)' if m.get('neutralised_by') else '')")
  echo "| $id | $prop | $n $note | $(($e-$s))s |" > $W/$id
  rm -rf "$S"
}
JOBS=$((16 / PAR)); mkdir -p $W/ev
export -f one 2>/dev/null
for d in /verif/seeded/C*/; do
  while [ $(jobs -r | wc -l) -ge $PAR ]; do sleep 2; done
  one ${d%/} &
done
wait
{ echo "| seeded change | check | VIOLATION lines | wall |"; echo "|---|---|---|---|"; cat $W/C* ; } > $OUT
rm -rf $W
grep -c '| 0 |\|| 0 $\|PATCH FAILED' $OUT; echo done
