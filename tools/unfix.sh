#!/bin/sh
# tools/unfix.sh <fix-commit> <ID> [<ID>...] -- run checks against a scratch copy of /repo with that fix commit reverted
C=$1; shift
P=$(mktemp /tmp/desolver-verif-unfix-XXXXXX.diff)
git -C /repo diff "$C" "$C~1" > "$P"
/verif/tools/mutate.sh "$P" "$@"
rm -f "$P"
